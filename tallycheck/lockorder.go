package main

import (
	"fmt"
	"go/token"
	"go/types"
	"sort"
	"strings"

	"golang.org/x/tools/go/ssa"
)

// lockClassOf returns the class (struct type + mutex field) of a lock operation.
func lockClassOf(op *lockOp) string {
	if f, base := addrField(op.Addr); f != nil {
		t := deref(base.Type())
		name := types.TypeString(t, func(p *types.Package) string {
			return strings.TrimPrefix(strings.TrimPrefix(p.Path(), modPath+"/"), modPath)
		})
		return name + "." + f.Name()
	}
	return "?" + op.Path
}

// sitesOf returns the static call sites of every in-module function.
func (p *Program) staticCallSites() map[*ssa.Function][]ssa.CallInstruction {
	out := map[*ssa.Function][]ssa.CallInstruction{}
	for _, fn := range p.AllFuncs {
		instrsOf(fn, func(in ssa.Instruction) {
			if ci, ok := in.(ssa.CallInstruction); ok {
				if g := staticCallee(ci); g != nil && p.inModule(g) {
					out[g] = append(out[g], ci)
				}
			}
		})
	}
	return out
}

// checkFieldDiscipline (A4): every access of a guarded field is made with its mutex held in the
// required mode; accesses through a parameter without the lock are obligations of every caller.
func (c *Ctx) checkFieldDiscipline(rule string, pkgs []string, eng *lockEngine, floor int) {
	guards := map[*types.Var]string{}
	for _, g := range guardTable {
		mutex := g.mutex
		if mv := c.field(g.pkg, g.typ, g.mutex); mv != nil {
			mutex = mv.Name() // the mutex field under today's name
		}
		for _, f := range g.fields {
			if fv := c.field(g.pkg, g.typ, f); fv != nil {
				guards[fv] = mutex
			} else {
				c.missing(rule, "guarded field "+g.pkg+"."+g.typ+"."+f)
			}
		}
	}
	sites := c.staticCallSites()
	nAcc, nBad, nHelper := 0, 0, 0
	inPkgs := map[string]bool{}
	for _, pk := range pkgs {
		inPkgs[pkgPath(pk)] = true
	}
	reported := map[string]bool{}
	for _, fn := range c.AllFuncs {
		if !inPkgs[fn.Package().Pkg.Path()] {
			continue
		}
		accs := c.guardedAccesses(fn, guards)
		if len(accs) == 0 {
			continue
		}
		c.sawFunc(c.fnKey(fn))
		for _, a := range accs {
			nAcc++
			root := canon(rootOf(a.base))
			if al, isAl := root.(*ssa.Alloc); isAl && al.Parent() == fn {
				continue // object under construction / local value
			}
			want := accessPath(a.base) + "." + a.mutex
			held := eng.heldAt(a.at)
			mode := held[want]
			need := byte('R')
			if a.write {
				need = 'W'
			}
			if mode == 'W' || (mode == 'R' && need == 'R') {
				continue
			}
			key := c.fnKey(fn) + ":" + a.fld.Name()
			// requires-lock helper: base rooted at a parameter and no lock taken here: callers' duty
			locksItHere := false
			instrsOf(fn, func(i ssa.Instruction) {
				if op := lockOpOf(i); op != nil && op.Path == want {
					locksItHere = true
				}
			})
			if mode == 0 && !locksItHere && rootedAtParam(fn, a.base) && len(sites[fn]) > 0 && fn.Parent() == nil {
				nHelper++
				okAll := true
				for _, cs := range sites[fn] {
					cp := substituteParam(fn, cs, want)
					ch := eng.heldAt(cs.(ssa.Instruction))
					if m := ch[cp]; !(m == 'W' || (m == 'R' && need == 'R')) {
						okAll = false
						k2 := key + "@" + c.fnKey(cs.Parent())
						if !reported[k2] {
							reported[k2] = true
							nBad++
							c.bad(rule, k2, cs.Pos(), fmt.Sprintf("%s is accessed by %s without taking %s; this caller does not hold it either (%s held): data race with concurrent users", fieldName(a.fld), fn.Name(), cp, ch), c.describe(cs.(ssa.Instruction)))
						}
					}
				}
				_ = okAll
				continue
			}
			if reported[key+c.pos(a.at.Pos())] {
				continue
			}
			reported[key+c.pos(a.at.Pos())] = true
			nBad++
			what := "read"
			if a.write {
				what = "written"
			}
			hint := ""
			if mode == 'R' {
				hint = " (only the read lock is held)"
			}
			c.bad(rule, key, a.at.Pos(), fmt.Sprintf("%s is %s without holding %s for %s%s: data race with concurrent registration/reporting", fieldName(a.fld), what, want, map[byte]string{'R': "reading", 'W': "writing"}[need], hint), c.describe(a.at), "held: "+held.String())
		}
	}
	c.extra["guarded_accesses"] = nAcc
	c.extra["requires_lock_helpers"] = nHelper
	if nBad == 0 {
		c.ok(rule, strings.Join(pkgs, ","), token.NoPos, fmt.Sprintf("all %d accesses of guarded fields are made with their mutex held in the required mode (%d through verified requires-lock helpers)", nAcc, nHelper))
	}
	c.floor(rule, nAcc, floor)
}

func fieldName(f *types.Var) string {
	return f.Name()
}

// checkLockPairing (A5): every function returns with the locks it was entered with.
func (c *Ctx) checkLockPairing(rule string, pkgs []string, eng *lockEngine, floor int) {
	n, nBad := 0, 0
	inPkgs := map[string]bool{}
	for _, pk := range pkgs {
		inPkgs[pkgPath(pk)] = true
	}
	for _, fn := range c.AllFuncs {
		if !inPkgs[fn.Package().Pkg.Path()] {
			continue
		}
		hasLock := false
		instrsOf(fn, func(in ssa.Instruction) {
			if lockOpOf(in) != nil {
				hasLock = true
			}
		})
		if !hasLock {
			continue
		}
		n++
		la := eng.analyze(fn)
		c.sawFunc(c.fnKey(fn))
		if len(la.requires) > 0 && !la.inContext {
			// a function that releases (or relies on) a lock it did not take is sound only if every
			// call is a static call whose lockset was verified; closures and method values are not
			escapes := fn.Parent() != nil
			if !escapes {
				for _, g := range c.AllFuncs {
					instrsOf(g, func(in ssa.Instruction) {
						for _, op := range in.Operands(nil) {
							if op != nil && *op == ssa.Value(fn) {
								if ci, isCall := in.(ssa.CallInstruction); !isCall || staticCallee(ci) != fn {
									escapes = true
								}
							}
						}
					})
				}
			}
			if !escapes && len(c.dynamicCallers(fn)) > 0 {
				escapes = true // reachable through an interface or function value (VTA call graph)
			}
			if escapes || len(c.staticCallSites()[fn]) == 0 {
				nBad++
				c.bad(rule, c.fnKey(fn), fn.Pos(), fmt.Sprintf("the function releases %s without having taken it, and it is called through a function value or interface, so no caller can be shown to hold it: unlock of an unlocked mutex (runtime fatal error) or an unprotected critical section", la.requires))
			}
		}
		for i, pr := range la.problems {
			nBad++
			c.bad(rule, c.fnKey(fn), la.probPos[i].Pos(), pr+": a later user of this lock blocks forever, or the critical section is left unprotected", c.describe(la.probPos[i]))
		}
	}
	if nBad == 0 {
		c.ok(rule, strings.Join(pkgs, ","), token.NoPos, fmt.Sprintf("all %d functions with lock operations release what they take on every path (deferred operations replayed in LIFO order; helpers verified in the caller's context)", n))
	}
	c.floor(rule, n, floor)
}

// ---- lock order ----------------------------------------------------------------------------------

type orderEdge struct {
	from, to string
	fromMode byte
	toMode   byte
	site     ssa.Instruction
	via      string
}

// checkLockOrder (A5): the graph "class a held while class b is acquired" is acyclic and contains
// no re-acquisition of a held class; exception E1 (purge -> Close) is honoured only while its side
// conditions hold.
func (c *Ctx) checkLockOrder(rule string, pkgs []string, eng *lockEngine) {
	inPkgs := map[string]bool{}
	for _, pk := range pkgs {
		inPkgs[pkgPath(pk)] = true
	}
	// class of every path seen in a function
	pathClass := map[*ssa.Function]map[string]string{}
	for _, fn := range c.AllFuncs {
		m := map[string]string{}
		instrsOf(fn, func(in ssa.Instruction) {
			if op := lockOpOf(in); op != nil {
				m[op.Path] = lockClassOf(op)
			}
		})
		pathClass[fn] = m
	}
	// may-acquire sets (transitive)
	direct := map[*ssa.Function]map[string]byte{}
	for _, fn := range c.AllFuncs {
		m := map[string]byte{}
		instrsOf(fn, func(in ssa.Instruction) {
			if op := lockOpOf(in); op != nil && (op.Op == "Lock" || op.Op == "RLock") {
				mode := byte('R')
				if op.Op == "Lock" {
					mode = 'W'
				}
				cl := lockClassOf(op)
				if m[cl] != 'W' {
					m[cl] = mode
				}
			}
		})
		direct[fn] = m
	}
	e1OK, e1Why := c.e1SideConditions()
	purge, closeFn := c.fn("", "scopeRegistry", "purgeIfRootClosed"), c.fn("", "scope", "Close")
	callees := func(fn *ssa.Function, in ssa.Instruction) []*ssa.Function {
		ci, ok := in.(ssa.CallInstruction)
		if !ok {
			return nil
		}
		if _, isGo := in.(*ssa.Go); isGo {
			return nil
		}
		if g := staticCallee(ci); g != nil {
			if c.inModule(g) {
				if e1OK && fn == purge && g == closeFn {
					return nil // E1
				}
				return []*ssa.Function{g}
			}
			return nil
		}
		if recv, m := ifaceCall(ci); m != nil {
			it, _ := recv.Type().Underlying().(*types.Interface)
			var out []*ssa.Function
			for _, f := range c.AllFuncs {
				if f.Signature.Recv() == nil || f.Name() != m.Name() {
					continue
				}
				rt := f.Signature.Recv().Type()
				if it != nil && (types.Implements(rt, it) || types.Implements(types.NewPointer(rt), it)) {
					if e1OK && fn == purge && f == closeFn {
						continue
					}
					out = append(out, f)
				}
			}
			return out
		}
		// closures called through a parameter are covered at their creation site below
		return nil
	}
	acq := map[*ssa.Function]map[string]byte{}
	for _, fn := range c.AllFuncs {
		acq[fn] = map[string]byte{}
		for k, v := range direct[fn] {
			acq[fn][k] = v
		}
	}
	for changed := true; changed; {
		changed = false
		for _, fn := range c.AllFuncs {
			instrsOf(fn, func(in ssa.Instruction) {
				var gs []*ssa.Function
				gs = append(gs, callees(fn, in)...)
				if mc, ok := in.(*ssa.MakeClosure); ok {
					if g, isF := mc.Fn.(*ssa.Function); isF {
						gs = append(gs, g)
					}
				}
				for _, g := range gs {
					for k, v := range acq[g] {
						if cur := acq[fn][k]; cur == 0 || (cur == 'R' && v == 'W') {
							acq[fn][k] = v
							changed = true
						}
					}
				}
			})
		}
	}
	// edges
	var edges []orderEdge
	for _, fn := range c.AllFuncs {
		if !inPkgs[fn.Package().Pkg.Path()] {
			continue
		}
		la := eng.analyze(fn)
		for _, b := range fn.Blocks {
			s, ok := la.in[b]
			if !ok {
				continue
			}
			s = s.clone()
			for _, in := range b.Instrs {
				if len(s) > 0 {
					classOf := func(path string) string {
						if cl, ok := pathClass[fn][path]; ok {
							return cl
						}
						return "?" + path
					}
					if op := lockOpOf(in); op != nil && (op.Op == "Lock" || op.Op == "RLock") {
						if _, isDefer := in.(*ssa.Defer); !isDefer {
							mode := byte('R')
							if op.Op == "Lock" {
								mode = 'W'
							}
							for hp, hm := range s {
								edges = append(edges, orderEdge{classOf(hp), lockClassOf(op), hm, mode, in, "direct"})
							}
						}
					} else {
						for _, g := range callees(fn, in) {
							// helpers analysed in the caller's context contribute their own ops there
							if ga := eng.analyze(g); ga != nil && len(ga.requires) > 0 {
								continue
							}
							for cl, mode := range acq[g] {
								for hp, hm := range s {
									edges = append(edges, orderEdge{classOf(hp), cl, hm, mode, in, "call " + g.Name()})
								}
							}
						}
					}
				}
				eng.step(la, s, in, false)
			}
		}
	}
	// dedupe
	type ek struct{ a, b string }
	uniq := map[ek]orderEdge{}
	for _, e := range edges {
		k := ek{e.from, e.to}
		if _, ok := uniq[k]; !ok {
			uniq[k] = e
		}
	}
	adj := map[string][]string{}
	var keys []string
	for k := range uniq {
		adj[k.a] = append(adj[k.a], k.b)
		keys = append(keys, k.a+" -> "+k.b)
	}
	sort.Strings(keys)
	c.extra["lock_order_edges"] = keys
	nBad := 0
	if !e1OK {
		nBad++
		c.bad(rule, "E1 purge->Close", token.NoPos, "the exception that makes the purge's call of Close() harmless no longer holds: "+e1Why)
	}
	// self edges
	for k, e := range uniq {
		if k.a == k.b {
			nBad++
			c.bad(rule, "reacquire:"+k.a, e.site.Pos(), fmt.Sprintf("lock class %s is acquired (%c, %s) while a lock of the same class is held (%c): an RWMutex is not reentrant - with a writer waiting in between this deadlocks", k.a, e.toMode, e.via, e.fromMode), c.describe(e.site))
		}
	}
	// cycles (DFS)
	color := map[string]int{}
	var stack []string
	var cyc []string
	var dfs func(n string) bool
	dfs = func(n string) bool {
		color[n] = 1
		stack = append(stack, n)
		ns := append([]string{}, adj[n]...)
		sort.Strings(ns)
		for _, m := range ns {
			if m == n {
				continue
			}
			if color[m] == 1 {
				for i, s := range stack {
					if s == m {
						cyc = append(append([]string{}, stack[i:]...), m)
					}
				}
				return true
			}
			if color[m] == 0 && dfs(m) {
				return true
			}
		}
		stack = stack[:len(stack)-1]
		color[n] = 2
		return false
	}
	var nodes []string
	for n := range adj {
		nodes = append(nodes, n)
	}
	sort.Strings(nodes)
	for _, n := range nodes {
		if color[n] == 0 && dfs(n) {
			nBad++
			var trail []string
			for i := 0; i+1 < len(cyc); i++ {
				e := uniq[ek{cyc[i], cyc[i+1]}]
				trail = append(trail, fmt.Sprintf("%s -> %s at %s (%s)", cyc[i], cyc[i+1], c.pos(e.site.Pos()), e.via))
			}
			c.bad(rule, "cycle:"+strings.Join(cyc, ">"), uniq[ek{cyc[0], cyc[1]}].site.Pos(), "lock classes are acquired in a cyclic order: two goroutines taking them in opposite orders deadlock", trail...)
			break
		}
	}
	if nBad == 0 {
		c.ok(rule, strings.Join(pkgs, ","), token.NoPos, fmt.Sprintf("the lock-class order graph (%d edges) is acyclic and has no re-acquisition of a held class", len(uniq)))
	}
	if inPkgs[pkgPath("")] {
		c.floor(rule, len(uniq), 4) // the root package nests its locks; the M3 packages do not nest any today
	}
}

// e1SideConditions: (i) the purge body runs only when root.closed is already set; (ii) in
// scope.Close everything that can take a lock is dominated by the successful CAS on closed, and the
// registry report additionally by the `root` test.
func (c *Ctx) e1SideConditions() (bool, string) {
	purge, closeFn := c.fn("", "scopeRegistry", "purgeIfRootClosed"), c.fn("", "scope", "Close")
	fClosed, fRoot := c.field("", "scope", "closed"), c.field("", "scope", "root")
	if purge == nil || closeFn == nil || fClosed == nil || fRoot == nil {
		return false, "anchors scopeRegistry.purgeIfRootClosed / scope.Close / scope.closed / scope.root not resolved"
	}
	// (i)
	var loadClosed ssa.Value
	instrsOf(purge, func(in ssa.Instruction) {
		if op := atomicOpOf(in); op != nil && op.Field == fClosed && op.Kind == "load" && loadClosed == nil {
			loadClosed, _ = in.(ssa.Value)
		}
	})
	if loadClosed == nil {
		return false, "the purge does not test root.closed"
	}
	ok := true
	instrsOf(purge, func(in ssa.Instruction) {
		if op := lockOpOf(in); op != nil && op.Op == "Lock" {
			if guardedByEdge(in, boolValueCond(loadClosed)) == nil {
				ok = false
			}
		}
	})
	if !ok {
		return false, "the purge takes bucket locks on a path where root.closed has not been observed true"
	}
	// (ii)
	var cas ssa.Value
	instrsOf(closeFn, func(in ssa.Instruction) {
		if op := atomicOpOf(in); op != nil && op.Field == fClosed && op.Kind == "cas" {
			cas, _ = in.(ssa.Value)
		}
	})
	if cas == nil {
		return false, "scope.Close does not flip closed by compare-and-swap"
	}
	why := ""
	instrsOf(closeFn, func(in ssa.Instruction) {
		call, isCall := in.(*ssa.Call)
		if !isCall {
			return
		}
		g := staticCallee(call)
		if g == nil || !c.inModule(g) {
			return
		}
		if atomicOpOf(in) != nil {
			return
		}
		if guardedByEdge(in, boolValueCond(cas)) == nil {
			why = "scope.Close calls " + g.Name() + " on a path where the compare-and-swap on closed did not succeed"
		}
		if g.Name() == "reportRegistry" {
			gr := guardedByEdge(in, func(cond ssa.Value) (bool, bool) {
				neg := false
				for {
					if u, isU := cond.(*ssa.UnOp); isU && u.Op == token.NOT {
						neg = !neg
						cond = u.X
						continue
					}
					break
				}
				f, _ := loadedField(cond)
				return f == fRoot, !neg
			})
			if gr == nil {
				why = "scope.Close reports the registry for non-root scopes"
			}
		}
	})
	if why != "" {
		return false, why
	}
	return true, ""
}
