package main

import (
	"fmt"
	"go/token"
	"go/types"
	"sort"
	"strings"

	"golang.org/x/tools/go/ssa"
)

// A9 QUALIFIER inference: which sanitizer functions has every source of a string / tag map passed
// through? Qualifiers: N (Sanitizer.Name), K (Sanitizer.Key), V (Sanitizer.Value). The analysis is
// a backward "all sources" (must) analysis: concatenation, phi, several stores to a field and
// several call sites intersect; recursion is resolved optimistically (greatest fixpoint).

type qual uint8

const (
	qN qual = 1 << iota
	qK
	qV
	qTop = qN | qK | qV
)

func (q qual) String() string {
	var s []string
	if q&qN != 0 {
		s = append(s, "Name")
	}
	if q&qK != 0 {
		s = append(s, "Key")
	}
	if q&qV != 0 {
		s = append(s, "Value")
	}
	if len(s) == 0 {
		return "unsanitized"
	}
	return strings.Join(s, "+")
}

type mapQual struct{ k, v qual }

type qualEngine struct {
	c        *Ctx
	sanIface *types.Interface
	strMemo  map[ssa.Value]qual
	strBusy  map[ssa.Value]bool
	mapMemo  map[ssa.Value]mapQual
	mapBusy  map[ssa.Value]bool
	sites    map[*ssa.Function][]ssa.CallInstruction
	fldStore map[*types.Var][]*ssa.Store
	why      map[ssa.Value]string // first unsanitized source found below a value
	depth    int
	dyn      map[*ssa.Function]bool // function has callers other than its static call sites (VTA)
}

func (c *Ctx) newQualEngine() *qualEngine {
	e := &qualEngine{c: c, strMemo: map[ssa.Value]qual{}, strBusy: map[ssa.Value]bool{}, mapMemo: map[ssa.Value]mapQual{}, mapBusy: map[ssa.Value]bool{},
		fldStore: map[*types.Var][]*ssa.Store{}, why: map[ssa.Value]string{}, dyn: map[*ssa.Function]bool{}}
	e.sanIface = c.iface("", "Sanitizer")
	e.sites = c.staticCallSites()
	for _, fn := range c.AllFuncs {
		instrsOf(fn, func(in ssa.Instruction) {
			if st, ok := in.(*ssa.Store); ok {
				if f, _ := addrField(st.Addr); f != nil {
					e.fldStore[f] = append(e.fldStore[f], st)
				}
			}
		})
	}
	return e
}

func (e *qualEngine) note(v ssa.Value, msg string) {
	if _, ok := e.why[v]; !ok {
		e.why[v] = msg
	}
}

func (e *qualEngine) explain(v ssa.Value) string {
	if s, ok := e.why[v]; ok {
		return s
	}
	return ""
}

// sanitizerCall: v is a call of Sanitizer.Name/Key/Value (through the interface or on the
// concrete sanitizer type).
func (e *qualEngine) sanitizerCall(v ssa.Value) (qual, bool) {
	call, ok := v.(*ssa.Call)
	if !ok {
		return 0, false
	}
	name := ""
	if recv, m := ifaceCall(call); m != nil {
		if n, isN := recv.Type().(*types.Named); isN && n.Obj().Name() == "Sanitizer" && n.Obj().Pkg().Path() == modPath {
			name = m.Name()
		}
	} else if f := staticCallee(call); f != nil && f.Signature.Recv() != nil {
		if n, isN := deref(f.Signature.Recv().Type()).(*types.Named); isN && n.Obj().Name() == "sanitizer" && n.Obj().Pkg().Path() == modPath {
			name = f.Name()
		}
	}
	switch name {
	case "Name":
		return qN, true
	case "Key":
		return qK, true
	case "Value":
		return qV, true
	}
	return 0, false
}

// isAPIParam: parameter of an exported function or of a method reachable through an exported
// interface of the package (the values callers hand in are unsanitized by definition).
func (e *qualEngine) isAPIEntry(fn *ssa.Function) bool {
	if fn.Parent() != nil {
		return false
	}
	if len(e.sites[fn]) == 0 {
		return true // only reachable from outside / through interfaces
	}
	if dyn, ok := e.dyn[fn]; ok {
		if dyn {
			return true
		}
	} else {
		// closed world: a function that can also be reached through an interface or a function
		// value receives arguments the static call sites do not show
		d := len(e.c.dynamicCallers(fn)) > 0
		e.dyn[fn] = d
		if d {
			return true
		}
	}
	obj := fn.Object()
	return obj != nil && obj.Exported() && fn.Signature.Recv() == nil
}

func (e *qualEngine) str(v ssa.Value) qual {
	v = stripConv(v)
	if q, ok := e.strMemo[v]; ok {
		return q
	}
	if e.strBusy[v] {
		return qTop
	}
	e.strBusy[v] = true
	q := e.strCompute(v)
	delete(e.strBusy, v)
	e.strMemo[v] = q
	return q
}

func (e *qualEngine) meetStr(vs []ssa.Value, parent ssa.Value) qual {
	q := qTop
	for _, x := range vs {
		qx := e.str(x)
		if qx != qTop && e.explain(parent) == "" {
			if w := e.explain(stripConv(x)); w != "" {
				e.note(parent, w)
			}
		}
		q &= qx
	}
	return q
}

func (e *qualEngine) strCompute(v ssa.Value) qual {
	if q, ok := e.sanitizerCall(v); ok {
		return q
	}
	switch x := v.(type) {
	case *ssa.Const:
		if s, isS := constString(x); isS && s == "" {
			return qTop // the empty string contains no invalid character
		}
		e.note(v, fmt.Sprintf("constant %s", x.Value))
		return 0
	case *ssa.BinOp:
		if x.Op == token.ADD {
			return e.meetStr([]ssa.Value{x.X, x.Y}, v)
		}
	case *ssa.Phi:
		return e.meetStr(x.Edges, v)
	case *ssa.Slice:
		return e.meetStr([]ssa.Value{x.X}, v) // a substring keeps the character class
	case *ssa.Convert:
		return e.meetStr([]ssa.Value{x.X}, v)
	case *ssa.Parameter:
		fn := x.Parent()
		if e.isAPIEntry(fn) || len(e.sites[fn]) == 0 {
			e.note(v, fmt.Sprintf("parameter %s of %s (handed in by the caller)", x.Name(), e.c.fnKey(fn)))
			return 0
		}
		idx := paramIndex(fn, x)
		var args []ssa.Value
		for _, cs := range e.sites[fn] {
			if idx < len(cs.Common().Args) {
				args = append(args, cs.Common().Args[idx])
			}
		}
		return e.meetStr(args, v)
	case *ssa.FreeVar:
		if b := freeVarBinding(x); b != nil {
			if s := spilled(b); s != nil {
				return e.meetStr([]ssa.Value{s}, v)
			}
		}
	case *ssa.UnOp:
		if x.Op == token.MUL {
			if s := spilled(x.X); s != nil {
				return e.meetStr([]ssa.Value{s}, v)
			}
			if al, isAl := x.X.(*ssa.Alloc); isAl {
				var vals []ssa.Value
				for _, st := range cellStores(al) {
					vals = append(vals, st.Val)
				}
				if len(vals) > 0 {
					return e.meetStr(vals, v)
				}
			}
			if f, _ := addrField(x.X); f != nil {
				return e.fieldStr(f, v)
			}
			if g, isG := x.X.(*ssa.Global); isG {
				// package-level string variable: its initial value and every store
				var vals []ssa.Value
				for _, fn := range e.c.AllFuncs {
					instrsOf(fn, func(in ssa.Instruction) {
						if st, ok := in.(*ssa.Store); ok && st.Addr == ssa.Value(g) {
							vals = append(vals, st.Val)
						}
					})
				}
				if pk := g.Pkg; pk != nil {
					if init := pk.Func("init"); init != nil {
						instrsOf(init, func(in ssa.Instruction) {
							if st, ok := in.(*ssa.Store); ok && st.Addr == ssa.Value(g) {
								vals = append(vals, st.Val)
							}
						})
					}
				}
				if len(vals) > 0 {
					return e.meetStr(vals, v)
				}
				e.note(v, "package variable "+g.Name())
				return 0
			}
		}
	case *ssa.Field:
		if f := structFieldOf(x.X.Type(), x.Field); f != nil {
			return e.fieldStr(f, v)
		}
	case *ssa.Call:
		if f := staticCallee(x); f != nil && e.c.inModule(f) && f.Blocks != nil {
			var vals []ssa.Value
			for _, r := range returnsOf(f) {
				if len(r.Results) >= 1 {
					for _, va := range resultValues(r, 0) {
						vals = append(vals, va.Val)
					}
				}
			}
			if len(vals) > 0 {
				return e.meetStr(vals, v)
			}
		}
	case *ssa.Extract:
		// key of a map being ranged over / comma-ok results
		if nx, isNx := x.Tuple.(*ssa.Next); isNx && !nx.IsString {
			if rg, isRg := nx.Iter.(*ssa.Range); isRg {
				mq := e.mp(rg.X)
				if x.Index == 1 {
					if mq.k != qTop {
						e.note(v, e.explain(stripConv(rg.X)))
					}
					return mq.k
				}
				if x.Index == 2 {
					if mq.v != qTop {
						e.note(v, e.explain(stripConv(rg.X)))
					}
					return mq.v
				}
			}
		}
		if call, isCall := x.Tuple.(*ssa.Call); isCall {
			if f := staticCallee(call); f != nil && e.c.inModule(f) && f.Blocks != nil {
				var vals []ssa.Value
				for _, r := range returnsOf(f) {
					if x.Index < len(r.Results) {
						for _, va := range resultValues(r, x.Index) {
							vals = append(vals, va.Val)
						}
					}
				}
				if len(vals) > 0 {
					return e.meetStr(vals, v)
				}
			}
		}
	case *ssa.Lookup:
		mq := e.mp(x.X)
		return mq.v
	}
	e.note(v, fmt.Sprintf("%s (%s)", v.Name(), v.String()))
	return 0
}

func (e *qualEngine) fieldStr(f *types.Var, parent ssa.Value) qual {
	stores := e.fldStore[f]
	if len(stores) == 0 {
		e.note(parent, "field "+f.Name()+" is never stored (zero value)")
		return qTop
	}
	var vals []ssa.Value
	for _, st := range stores {
		vals = append(vals, st.Val)
	}
	q := e.meetStr(vals, parent)
	if q != qTop && e.explain(parent) == "" {
		e.note(parent, "field "+f.Name())
	}
	return q
}

func (e *qualEngine) mp(v ssa.Value) mapQual {
	v = stripConv(v)
	if q, ok := e.mapMemo[v]; ok {
		return q
	}
	if e.mapBusy[v] {
		return mapQual{qTop, qTop}
	}
	e.mapBusy[v] = true
	q := e.mapCompute(v)
	delete(e.mapBusy, v)
	e.mapMemo[v] = q
	return q
}

func (e *qualEngine) meetMap(vs []ssa.Value, parent ssa.Value) mapQual {
	q := mapQual{qTop, qTop}
	for _, x := range vs {
		qx := e.mp(x)
		if (qx.k != qTop || qx.v != qTop) && e.explain(parent) == "" {
			if w := e.explain(stripConv(x)); w != "" {
				e.note(parent, w)
			}
		}
		q.k &= qx.k
		q.v &= qx.v
	}
	return q
}

func (e *qualEngine) mapCompute(v ssa.Value) mapQual {
	switch x := v.(type) {
	case *ssa.Const:
		return mapQual{qTop, qTop} // nil map
	case *ssa.MakeMap:
		q := mapQual{qTop, qTop}
		if x.Referrers() != nil {
			for _, r := range *x.Referrers() {
				e.mapUpdatesThrough(r, x, &q, v)
			}
		}
		return q
	case *ssa.Phi:
		return e.meetMap(x.Edges, v)
	case *ssa.Parameter:
		fn := x.Parent()
		if e.isAPIEntry(fn) || len(e.sites[fn]) == 0 {
			e.note(v, fmt.Sprintf("map parameter %s of %s (handed in by the caller)", x.Name(), e.c.fnKey(fn)))
			return mapQual{0, 0}
		}
		idx := paramIndex(fn, x)
		var args []ssa.Value
		for _, cs := range e.sites[fn] {
			if idx < len(cs.Common().Args) {
				args = append(args, cs.Common().Args[idx])
			}
		}
		return e.meetMap(args, v)
	case *ssa.UnOp:
		if x.Op == token.MUL {
			if s := spilled(x.X); s != nil {
				return e.meetMap([]ssa.Value{s}, v)
			}
			if al, isAl := x.X.(*ssa.Alloc); isAl {
				var vals []ssa.Value
				for _, st := range cellStores(al) {
					vals = append(vals, st.Val)
				}
				if len(vals) > 0 {
					return e.meetMap(vals, v)
				}
			}
			if f, _ := addrField(x.X); f != nil {
				return e.fieldMap(f, v)
			}
		}
	case *ssa.Field:
		if f := structFieldOf(x.X.Type(), x.Field); f != nil {
			return e.fieldMap(f, v)
		}
	case *ssa.Call:
		if f := staticCallee(x); f != nil && e.c.inModule(f) && f.Blocks != nil {
			var vals []ssa.Value
			for _, r := range returnsOf(f) {
				if len(r.Results) >= 1 {
					for _, va := range resultValues(r, 0) {
						vals = append(vals, va.Val)
					}
				}
			}
			if len(vals) > 0 {
				return e.meetMap(vals, v)
			}
		}
	case *ssa.FreeVar:
		if b := freeVarBinding(x); b != nil {
			if s := spilled(b); s != nil {
				return e.meetMap([]ssa.Value{s}, v)
			}
		}
	}
	e.note(v, fmt.Sprintf("%s (%s)", v.Name(), v.String()))
	return mapQual{0, 0}
}

// mapUpdatesThrough folds the MapUpdates made on map m (also through phis and single-store cells
// that merely carry it) into q.
func (e *qualEngine) mapUpdatesThrough(r ssa.Instruction, m ssa.Value, q *mapQual, parent ssa.Value) {
	switch u := r.(type) {
	case *ssa.MapUpdate:
		if u.Map != m {
			return
		}
		kq, vq := e.str(u.Key), e.str(u.Value)
		if kq&qK == 0 && e.explain(parent) == "" {
			e.note(parent, "tag key "+e.explain(stripConv(u.Key))+" stored at "+e.c.pos(u.Pos()))
		}
		if vq&qV == 0 && e.explain(parent) == "" {
			e.note(parent, "tag value "+e.explain(stripConv(u.Value))+" stored at "+e.c.pos(u.Pos()))
		}
		q.k &= kq
		q.v &= vq
	case *ssa.Store:
		// the map is stored into a field (composite literal) and later updated through the field:
		// updates through loads of that field address in the same function
		if u.Val != m {
			return
		}
		fn := u.Parent()
		f, base := addrField(u.Addr)
		if f == nil {
			return
		}
		instrsOf(fn, func(in ssa.Instruction) {
			if mu, ok := in.(*ssa.MapUpdate); ok {
				if lf, lb := loadedField(mu.Map); lf == f && accessPath(lb) == accessPath(base) {
					q.k &= e.str(mu.Key)
					q.v &= e.str(mu.Value)
				}
			}
		})
	}
}

func (e *qualEngine) fieldMap(f *types.Var, parent ssa.Value) mapQual {
	stores := e.fldStore[f]
	q := mapQual{qTop, qTop}
	if len(stores) == 0 {
		return q
	}
	var vals []ssa.Value
	for _, st := range stores {
		vals = append(vals, st.Val)
	}
	q = e.meetMap(vals, parent)
	// updates made through the field after it was stored (any function)
	for _, fn := range e.c.AllFuncs {
		instrsOf(fn, func(in ssa.Instruction) {
			if mu, ok := in.(*ssa.MapUpdate); ok {
				if lf, _ := loadedField(mu.Map); lf == f {
					kq, vq := e.str(mu.Key), e.str(mu.Value)
					if (kq&qK == 0 || vq&qV == 0) && e.explain(parent) == "" {
						e.note(parent, "entry stored into field "+f.Name()+" at "+e.c.pos(mu.Pos()))
					}
					q.k &= kq
					q.v &= vq
				}
			}
		})
	}
	if (q.k != qTop || q.v != qTop) && e.explain(parent) == "" {
		e.note(parent, "field "+f.Name())
	}
	return q
}

// sinks: the reporter calls of package tally carrying a name (arg 0) and a tag map (arg 1).
type qualSink struct {
	call ssa.CallInstruction
	m    *types.Func
}

func (c *Ctx) reporterSinks() []qualSink {
	var ms []*types.Func
	for _, n := range []string{"ReportCounter", "ReportGauge", "ReportTimer", "ReportHistogramValueSamples", "ReportHistogramDurationSamples"} {
		ms = append(ms, c.ifaceMethod("", "StatsReporter", n))
	}
	for _, n := range []string{"AllocateCounter", "AllocateGauge", "AllocateTimer", "AllocateHistogram"} {
		ms = append(ms, c.ifaceMethod("", "CachedStatsReporter", n))
	}
	var out []qualSink
	for _, fn := range c.funcsOfPkg("") {
		instrsOf(fn, func(in ssa.Instruction) {
			ci, ok := in.(ssa.CallInstruction)
			if !ok {
				return
			}
			if _, m := ifaceCall(ci); m != nil {
				for _, w := range ms {
					if w != nil && m == w {
						out = append(out, qualSink{ci, m})
					}
				}
			}
		})
	}
	sort.SliceStable(out, func(i, j int) bool { return out[i].call.Pos() < out[j].call.Pos() })
	return out
}
