package main

import (
	"fmt"
	"go/token"
	"go/types"

	"golang.org/x/tools/go/ssa"
)

func init() { register("C13", checkC13) }

func checkC13(c *Ctx) {
	c.Explanation = "Decides the structural clauses of 'every reported value is emitted exactly once and intact': (O1) after the done check reportCopyMetric performs exactly one blocking enqueue (send on the queue or observe the done channel), the copy it enqueues carries the timestamp loaded from the reporter's clock and the size/bucket/bucketID it was given; every cached handle method or closure writes its value parameter into the field of its kind and calls reportCopyMetric exactly once with its own metric and size; (O2) the batching loop appends every dequeued metric exactly once, emits the open batch when the queue is closed, and the emitter sends the whole batch with the reporter's common tags and hands back an empty batch; (O3) Close closes the queue only after the drain wait and returns only after wg.Wait; (O4) a tag slice obtained from the hash-keyed tag cache is used only on a path where it was compared equal to the requested tags, the predicate compares length and every (name, value); (O5) the cached clock is stored in the constructor before the goroutines start."
	c.Explanation += " Added later: (O8) borrowed tag slices go back to the pool emptied and the list remembering them is emptied on the same path; (O5) the clock is refreshed with time.Now().UnixNano() in a loop of a goroutine the constructor starts; (O7) ndigits counts decimal digits and the M3 renderers' open-end tables are exactly {+max: infinity, -max: -infinity}."
	c.Explanation += " Added by round 8: (O3 handle-own-template) the handle returned by an Allocate call is a literal of that call whose metric is newMetric(name, tags, kind); (O2 transport-limit, shared with C15) the transport's limit is the datagram constant."
	c.NotDecided = []string{"multiset equality of decoded datagrams", "timestamps as numbers", "byte-exact encodings (C16)"}
	const pk = "m3"
	rcm := c.fn(pk, "reporter", "reportCopyMetric")
	fMetCh, fDoneCh, fNow, fDone := c.field(pk, "reporter", "metCh"), c.field(pk, "reporter", "donech"), c.field(pk, "reporter", "now"), c.field(pk, "reporter", "done")
	if rcm == nil || fMetCh == nil || fDoneCh == nil || fNow == nil || fDone == nil {
		c.missing("O1 enqueue-once", "m3.reporter.reportCopyMetric / fields metCh, donech, now, done")
		return
	}
	// ---- O1 --------------------------------------------------------------------------------
	{
		fn := rcm
		key := c.fnKey(fn)
		c.sawFunc(key)
		isEnq := func(in ssa.Instruction) bool {
			switch x := in.(type) {
			case *ssa.Send:
				f, _ := loadedField(x.Chan)
				return f == fMetCh
			case *ssa.Select:
				for _, st := range x.States {
					if f, _ := loadedField(st.Chan); f == fMetCh && st.Dir == types.SendOnly {
						return true
					}
				}
			}
			return false
		}
		enqs := findInstrs(fn, isEnq)
		cnt := c.newPathCounter(isEnq, 0).fn(fn, 0)
		c.paths++
		okAll := c.check(len(enqs) == 1 && cnt.max == 1, "O1 enqueue-once", key, fn.Pos(), "at most one enqueue per call",
			fmt.Sprintf("reportCopyMetric contains %d enqueue operations, up to %d on one path: a reported value is queued more than once (or never)", len(enqs), cnt.max))
		if len(enqs) == 1 {
			enq := enqs[0]
			// on the done==false edge every path reaches the enqueue
			var after ssa.Instruction
			for _, l := range findInstrs(fn, func(in ssa.Instruction) bool {
				op := atomicOpOf(in)
				return op != nil && op.Field == fDone && op.Kind == "load"
			}) {
				lv := l.(ssa.Value)
				for _, b := range fn.Blocks {
					if iff, ok := condOf(b); ok {
						if m, onTrue := boolValueCond(lv)(iff.Cond); m {
							if onTrue {
								after = b.Succs[1].Instrs[0]
							} else {
								after = b.Succs[0].Instrs[0]
							}
						}
					}
				}
			}
			if after == nil {
				okAll = false
				c.bad("O1 enqueue-once", key+":reaches", fn.Pos(), "no done check found before the enqueue")
			} else if esc := reachAvoiding(after, true, isReturn, func(i ssa.Instruction) bool { return i == enq }); esc != nil {
				okAll = false
				c.bad("O1 enqueue-once", key+":reaches", esc.Pos(), "a call that passed the done check can return without enqueuing the value: the report is silently dropped", c.describe(esc))
			}
			// blocking select with a receive on donech, or a plain send
			if sel, isSel := enq.(*ssa.Select); isSel {
				hasDone := false
				for _, st := range sel.States {
					if f, _ := loadedField(st.Chan); f == fDoneCh && st.Dir == types.RecvOnly {
						hasDone = true
					}
				}
				if !sel.Blocking || !hasDone || len(sel.States) != 2 {
					okAll = false
					c.bad("O1 enqueue-once", key+":blocking", sel.Pos(), "the enqueue is not a blocking select over {send on the queue, receive from the done channel}: with a default case a full queue drops the value", c.describe(sel))
				}
			}
			// what is enqueued: sizedMetric{m: <copy with timestamp>, size: size, set: true, bucket, bucketID}
			var sent ssa.Value
			switch x := enq.(type) {
			case *ssa.Send:
				sent = x.X
			case *ssa.Select:
				for _, st := range x.States {
					if st.Dir == types.SendOnly {
						sent = st.Send
					}
				}
			}
			okFields := false
			if al := cellOf(sent); al != nil || true {
				var cell *ssa.Alloc
				if u, isU := stripConv(sent).(*ssa.UnOp); isU {
					cell, _ = u.X.(*ssa.Alloc)
				}
				if cell != nil {
					got := map[string]ssa.Value{}
					for _, r := range *cell.Referrers() {
						if fa, isFA := r.(*ssa.FieldAddr); isFA && fa.Referrers() != nil {
							f := structFieldOf(fa.X.Type(), fa.Field)
							for _, u := range *fa.Referrers() {
								if st, isSt := u.(*ssa.Store); isSt && st.Addr == ssa.Value(fa) {
									got[f.Name()] = st.Val
								}
							}
						}
					}
					pm, psize, pbucket, pid := fn.Params[1], fn.Params[2], fn.Params[3], fn.Params[4]
					setV, isB := constBool(got["set"])
					okFields = got["size"] == ssa.Value(psize) && got["bucket"] == ssa.Value(pbucket) && got["bucketID"] == ssa.Value(pid) && isB && setV
					// m: a load of the spilled parameter copy, made after the timestamp store
					var tsStore *ssa.Store
					mOK := false
					if ld, isLd := got["m"].(*ssa.UnOp); isLd {
						if mcell, isAl := ld.X.(*ssa.Alloc); isAl {
							first := cellStores(mcell)
							if len(first) == 1 && first[0].Val == ssa.Value(pm) {
								for _, r := range *mcell.Referrers() {
									if fa, isFA := r.(*ssa.FieldAddr); isFA && structFieldOf(fa.X.Type(), fa.Field).Name() == "Timestamp" {
										for _, u := range *fa.Referrers() {
											if st, isSt := u.(*ssa.Store); isSt {
												tsStore = st
											}
										}
									}
								}
								if tsStore != nil && dominates(tsStore, ld) {
									if call, isCall := tsStore.Val.(*ssa.Call); isCall {
										if op := atomicOpOf(call); op != nil && op.Field == fNow && op.Kind == "load" {
											mOK = true
										}
									}
								}
							}
						}
					}
					if !mOK {
						okFields = false
						okAll = false
						c.bad("O1 enqueue-once", key+":timestamp", enq.Pos(), "the enqueued metric is not the given metric stamped with the reporter's clock (now.Load()) before it is copied into the queue element: the value is emitted with a placeholder timestamp", c.describe(enq))
					}
				}
			}
			if !okFields {
				okAll = false
				c.bad("O1 enqueue-once", key+":element", enq.Pos(), "the queue element is not {m: stamped metric, size: size, set: true, bucket: bucket, bucketID: bucketID} built from the function's parameters", c.describe(enq))
			}
		}
		if okAll {
			c.ok("O1 enqueue-once", key+":shape", fn.Pos(), "done check -> stamp -> exactly one blocking enqueue of {metric, size, set, bucket, bucketID}")
		}
	}
	c.checkM3Handles("O1 handle-methods", rcm)
	// a handle method writes the value into its own copy of the pre-built metric, never into storage
	// shared between calls (intact under concurrent reports through one handle; shared with C14 O4)
	c.checkReentrantHandles("O1 private-copy", []string{"m3"})

	// ---- O2 batching -------------------------------------------------------------------------
	c.checkBatching("O2", false, true)

	// ---- O3 Close ------------------------------------------------------------------------------
	c.checkM3CloseDrains("O3 close-drains", fMetCh)

	// ---- O4 tag cache ----------------------------------------------------------------------------
	c.checkTagCacheHit("O4 cache-hit-equality")

	// ---- O7 bucket identity ------------------------------------------------------------------------
	c.checkM3BucketIdentity("O7 bucket-identity")
	// O8: a metric is emitted with its own tags (shared with C12 O7)
	c.checkSharedTagSlices("O8 shared-tags")
	c.checkPublishedNotRecycled("O8 published-not-recycled")
	c.checkBorrowedTagsReturnedOnce("O8 borrowed-returned-once")
	c.checkConfiguredDestinations("O9 destinations")
	// tags arrive as allocated: pooled tag slices never overlap (shared with C12 O7)
	c.checkPooledSlicesDisjoint("O8 pooled-slices-disjoint")
	c.checkClockRefresh("O5 clock-refresh")
	c.checkNdigits("O7 bucket-identity-digits")
	// "intact": kind, name and tags of what a handle emits are those it was allocated with
	c.checkHandleOwnTemplate("O3 handle-own-template")
	// the transport's limit is the datagram limit, whatever the reporter's packet size: a metric larger than
	// the packet size still goes out alone instead of leaving half a message in front of the next batch
	// (shared with C15 O2)
	c.shared(checkC15, map[string]string{"O2 bound-check": "O2 transport-limit"})
	// "appears in exactly one emitted batch": the size a handle is charged with is the calculator's result for
	// that handle's own template - a bucket is not charged with another bucket's size (round 11; shared with C12 O2/O4b)
	c.shared(checkC12, map[string]string{"O2 size-provenance": "O2 charged-as-measured", "O4b bucket-tags": "O2 charged-as-measured"})
	// the bucket tag value renders the open ends as in the StatsD reporter (shared table rule, C18 O2)
	c.checkM3Renderers("O7 bucket-identity-open-ends")

	// ---- O5 clock initialised before the goroutines start ---------------------------------------
	if ctor := c.fn(pk, "", "NewReporter"); ctor != nil {
		key := c.fnKey(ctor)
		c.sawFunc(key)
		stores := findInstrs(ctor, func(in ssa.Instruction) bool {
			op := atomicOpOf(in)
			return op != nil && op.Field == fNow && op.Kind == "store"
		})
		gos := findInstrs(ctor, func(in ssa.Instruction) bool { _, ok := in.(*ssa.Go); return ok })
		ok := len(stores) > 0 && len(gos) > 0
		for _, g := range gos {
			dom := false
			for _, s := range stores {
				if dominates(s, g) {
					dom = true
				}
			}
			if !dom {
				ok = false
			}
		}
		// and before the successful return
		for _, r := range returnsOf(ctor) {
			if len(r.Results) == 2 && isNilConst(r.Results[1]) {
				dom := false
				for _, s := range stores {
					if dominates(s, r) {
						dom = true
					}
				}
				if !dom {
					ok = false
				}
			}
		}
		// stored value is time.Now().UnixNano()
		for _, s := range stores {
			op := atomicOpOf(s)
			v, isCall := op.Args[0].(*ssa.Call)
			if !isCall || staticCallee(v) == nil || staticCallee(v).String() != "(time.Time).UnixNano" {
				ok = false
			}
		}
		c.check(ok, "O5 clock-init", key, ctor.Pos(), "now is stored (time.Now().UnixNano()) before the goroutines start and before the constructor returns",
			"the cached clock is not initialised in the constructor before the goroutines are started: a value reported right after NewReporter carries timestamp 0")
	} else {
		c.missing("O5 clock-init", "m3.NewReporter")
	}
}

// checkM3Handles: every function that calls reportCopyMetric (the cached handle methods and the
// bucket closures) calls it exactly once on every path, with a metric into whose Value field of
// the right kind its parameter was stored, and with its own size.
func (c *Ctx) checkM3Handles(rule string, rcm *ssa.Function) {
	kindField := map[string]string{"ReportCount": "Count", "ReportGauge": "Gauge", "ReportTimer": "Timer", "ReportSamples": "Count"}
	n := 0
	for _, fn := range c.funcsOfPkg("m3") {
		var calls []*ssa.Call
		instrsOf(fn, func(in ssa.Instruction) {
			if call, ok := in.(*ssa.Call); ok && staticCallee(call) == rcm {
				calls = append(calls, call)
			}
		})
		if len(calls) == 0 {
			continue
		}
		n++
		key := c.fnKey(fn)
		c.sawFunc(key)
		cnt := c.newPathCounter(func(i ssa.Instruction) bool { call, ok := i.(*ssa.Call); return ok && staticCallee(call) == rcm }, 0).fn(fn, 0)
		c.paths++
		if len(calls) != 1 || cnt.min != 1 || cnt.max != 1 {
			c.bad(rule, key, fn.Pos(), fmt.Sprintf("the handle enqueues its value between %d and %d times per call (exactly once is required)", cnt.min, cnt.max))
			continue
		}
		call := calls[0]
		name := fn.Name()
		if fn.Parent() != nil {
			name = "ReportSamples" // bucket closure
		}
		wantField, known := kindField[name]
		if !known {
			c.undecided(rule, key, fn.Pos(), "unknown handle method "+name)
			continue
		}
		valParam := fn.Params[len(fn.Params)-1]
		// the metric argument: load of a local cell
		ld, isLd := stripConv(call.Call.Args[1]).(*ssa.UnOp)
		okVal := false
		var where ssa.Instruction = call
		if isLd {
			// find a store of the value parameter into <cell-path>.Value.<wantField> that dominates the call
			root := rootOf(ld.X)
			instrsOf(fn, func(in ssa.Instruction) {
				st, ok := in.(*ssa.Store)
				if !ok {
					return
				}
				f, base := addrField(st.Addr)
				if f == nil || f.Name() != wantField {
					return
				}
				vf, _ := addrField(base)
				if vf == nil || vf.Name() != "Value" {
					return
				}
				if rootOf(st.Addr) != root {
					return
				}
				v := stripConv(st.Val)
				if cv, isCv := v.(*ssa.Convert); isCv {
					v = cv.X
				}
				if canon(v) == ssa.Value(valParam) && dominates(st, call) {
					okVal = true
				}
			})
			// no other store into Value.* of that cell
			instrsOf(fn, func(in ssa.Instruction) {
				st, ok := in.(*ssa.Store)
				if !ok || rootOf(st.Addr) != root {
					return
				}
				f, base := addrField(st.Addr)
				vf, _ := addrField(base)
				if f != nil && vf != nil && vf.Name() == "Value" && f.Name() != wantField {
					okVal = false
					where = st
				}
			})
		}
		c.check(okVal, rule, key, where.Pos(), "value parameter stored into Value."+wantField+" of its own metric copy, then enqueued once",
			"the handle does not store its value parameter into Value."+wantField+" of the metric it enqueues (wrong kind of field, or the value is not written): the reported value is not the one emitted", c.describe(where))
		// size argument is the handle's own size
		sz := stripConv(call.Call.Args[2])
		okSize := false
		if f, _ := loadedField(sz); f != nil && f.Name() == "size" {
			okSize = true
		}
		if u, isU := sz.(*ssa.UnOp); isU {
			if fv, isFV := u.X.(*ssa.FreeVar); isFV {
				if b := freeVarBinding(fv); b != nil {
					if s := spilled(b); s != nil {
						if f, _ := loadedField(s); f != nil && f.Name() == "size" {
							okSize = true
						}
					}
				}
			}
		}
		c.check(okSize, rule, key+":size", call.Pos(), "the charged size passed on is the handle's own pre-computed size",
			"the size enqueued with the metric is not the handle's pre-computed size (C12 relies on it)", c.describe(call))
	}
	c.floor(rule, n, 3)
}

func (c *Ctx) checkM3CloseDrains(rule string, fMetCh *types.Var) {
	fWg := c.field("m3", "reporter", "wg")
	n := 0
	for _, fn := range c.funcsOfPkg("m3") {
		for _, co := range chanOpsOf(fn) {
			if co.Kind != "close" || co.Field != fMetCh {
				continue
			}
			n++
			isWait := func(in ssa.Instruction) bool {
				call := asCall(in)
				if call == nil {
					return false
				}
				pkg, typ, m := recvNamed(call)
				if pkg != "sync" || typ != "WaitGroup" || m != "Wait" {
					return false
				}
				f, _ := addrField(call.Common().Args[0])
				return f == fWg
			}
			esc := reachAvoiding(co.Instr, false, isReturn, c.newLifter(isWait, 1).Must)
			c.check(esc == nil, rule, c.fnKey(fn), co.Instr.Pos(), "after closing the queue Close waits for the batching goroutine (which emits everything queued) before returning",
				"Close returns without waiting for the batching goroutine after closing the queue: queued values may not have been emitted when Close returns")
		}
	}
	c.floor(rule, n, 1)
}

// checkTagCacheHit (A13): in every function that reads the tag cache, a slice obtained from the
// cache (Get or Set result) is returned only on a path where the equality predicate over
// (that slice, requested tags) was true.
func (c *Ctx) checkTagCacheHit(rule string) {
	getFn, setFn := c.fn("internal/cache", "TagCache", "Get"), c.fn("internal/cache", "TagCache", "Set")
	if getFn == nil || setFn == nil {
		c.missing(rule, "internal/cache.TagCache.Get/Set")
		return
	}
	n := 0
	for _, fn := range c.funcsOfPkg("m3") {
		var cached []ssa.Value
		instrsOf(fn, func(in ssa.Instruction) {
			call, ok := in.(*ssa.Call)
			if !ok {
				return
			}
			switch staticCallee(call) {
			case getFn:
				for _, r := range *call.Referrers() {
					if e, isE := r.(*ssa.Extract); isE && e.Index == 0 {
						cached = append(cached, e)
					}
				}
			case setFn:
				cached = append(cached, call)
			}
		})
		if len(cached) == 0 {
			continue
		}
		n++
		key := c.fnKey(fn)
		c.sawFunc(key)
		var req *ssa.Parameter
		for _, p := range fn.Params {
			if _, isMap := p.Type().Underlying().(*types.Map); isMap {
				req = p
			}
		}
		if req == nil {
			c.undecided(rule, key, fn.Pos(), "no requested-tags parameter")
			continue
		}
		isCached := func(v ssa.Value) bool {
			v = stripConv(v)
			for _, cv := range cached {
				if v == cv {
					return true
				}
			}
			return false
		}
		// equality predicate: a bool in-module call with (cached value, req)
		var predFn *ssa.Function
		eqEdges := map[*ssa.BasicBlock]int{}
		eqFor := map[*ssa.BasicBlock]ssa.Value{}
		for _, b := range fn.Blocks {
			iff, ok := condOf(b)
			if !ok {
				continue
			}
			// look through && chains: cond may be a phi of (false, call)
			conds := []ssa.Value{iff.Cond}
			if phi, isPhi := iff.Cond.(*ssa.Phi); isPhi {
				conds = append(conds, phi.Edges...)
			}
			for _, cv := range conds {
				neg := false
				for {
					if u, isU := cv.(*ssa.UnOp); isU && u.Op == token.NOT {
						neg = !neg
						cv = u.X
						continue
					}
					break
				}
				call, isCall := cv.(*ssa.Call)
				if !isCall || staticCallee(call) == nil || !c.inModule(staticCallee(call)) {
					continue
				}
				var cachedArg ssa.Value
				hasReq := false
				for _, a := range call.Call.Args {
					if isCached(resolveCell(a)) {
						cachedArg = stripConv(resolveCell(a))
					}
					if canon(a) == ssa.Value(req) {
						hasReq = true
					}
				}
				if cachedArg != nil && hasReq {
					predFn = staticCallee(call)
					if neg {
						eqEdges[b] = 1
					} else {
						eqEdges[b] = 0
					}
					eqFor[b] = cachedArg
				}
			}
		}
		okAll := true
		for _, r := range returnsOf(fn) {
			if len(r.Results) != 1 {
				continue
			}
			v := stripConv(resolveCell(r.Results[0]))
			vals := []ssa.Value{v}
			if phi, isPhi := v.(*ssa.Phi); isPhi {
				vals = phi.Edges
			}
			for _, rv := range vals {
				if !isCached(rv) {
					continue
				}
				g := false
				for b, idx := range eqEdges {
					if eqFor[b] == stripConv(rv) && edgeDominates(b, idx, r.Block()) {
						g = true
					}
				}
				if !g {
					okAll = false
					c.bad(rule, key, r.Pos(), "a tag slice taken from the hash-keyed tag cache is returned on a path where it has not been compared equal to the requested tags: distinct tag sets with the same 64-bit key (e.g. {a:\"b=c\"} and {\"a=b\":\"c\"}) share one entry and the metric is sent with another metric's tags", c.describe(r))
				}
			}
		}
		if okAll {
			c.ok(rule, key, fn.Pos(), "cached tag slices are returned only after the equality predicate held")
		}
		if predFn != nil {
			c.checkTagsEqualPred(rule+"-pred", predFn)
		} else if okAll {
			c.bad(rule, key+":pred", fn.Pos(), "no equality predicate over (cached slice, requested tags) found")
		}
	}
	c.floor(rule, n, 1)
}

// resolveCell: a load of a single-store local resolves to the stored value.
func resolveCell(v ssa.Value) ssa.Value {
	if u, ok := stripConv(v).(*ssa.UnOp); ok && u.Op == token.MUL {
		if al, isAl := u.X.(*ssa.Alloc); isAl {
			if s := spilled(al); s != nil {
				return s
			}
		}
	}
	return v
}

// checkTagsEqualPred: the predicate returns true only after the lengths compared equal and every
// element's name was looked up in the map with a value comparison.
func (c *Ctx) checkTagsEqualPred(rule string, fn *ssa.Function) {
	key := c.fnKey(fn)
	c.sawFunc(key)
	var sl, mp *ssa.Parameter
	for _, p := range fn.Params {
		switch p.Type().Underlying().(type) {
		case *types.Slice:
			sl = p
		case *types.Map:
			mp = p
		}
	}
	if sl == nil || mp == nil {
		c.undecided(rule, key, fn.Pos(), "unexpected predicate signature")
		return
	}
	lenCmp, lookup, valCmp, nameKey := false, false, false, false
	for _, b := range fn.Blocks {
		iff, ok := condOf(b)
		if !ok {
			continue
		}
		conds := []ssa.Value{iff.Cond}
		if phi, isPhi := iff.Cond.(*ssa.Phi); isPhi {
			conds = append(conds, phi.Edges...)
		}
		for _, cv := range conds {
			op, x, y, isCmp := cmpOf(cv)
			if !isCmp {
				continue
			}
			lx, okx := stripConv(x).(*ssa.Call)
			ly, oky := stripConv(y).(*ssa.Call)
			if okx && oky && isBuiltin(lx, "len") && isBuiltin(ly, "len") && (op == token.NEQ || op == token.EQL) {
				a, bb := canon(lx.Call.Args[0]), canon(ly.Call.Args[0])
				if (a == ssa.Value(sl) && bb == ssa.Value(mp)) || (a == ssa.Value(mp) && bb == ssa.Value(sl)) {
					if c.edgeReturnsFalse(b, op == token.NEQ) {
						lenCmp = true
					}
				}
			}
			if op == token.NEQ || op == token.EQL {
				// v != t.Value
				fx, _ := loadedField(stripConv(x))
				fy, _ := loadedField(stripConv(y))
				if (fx != nil && fx.Name() == "Value") || (fy != nil && fy.Name() == "Value") {
					valCmp = true
				}
			}
		}
	}
	instrsOf(fn, func(in ssa.Instruction) {
		if lk, ok := in.(*ssa.Lookup); ok && canon(lk.X) == ssa.Value(mp) && lk.CommaOk {
			lookup = true
			if f, _ := loadedField(stripConv(lk.Index)); f != nil && f.Name() == "Name" {
				nameKey = true
			}
		}
	})
	// the loop ranges over the whole slice
	ranges := false
	instrsOf(fn, func(in ssa.Instruction) {
		if call, ok := in.(*ssa.Call); ok && isBuiltin(call, "len") && canon(call.Call.Args[0]) == ssa.Value(sl) {
			ranges = true
		}
	})
	// the two per-element tests are decisive: "name not in the map" and "value differs" each lead to
	// `return false` on every path (a weakened combination such as `!ok && v != value`, or an inverted
	// comparison, lets a different tag set pass)
	okMiss, okDiff := false, false
	instrsOf(fn, func(in ssa.Instruction) {
		lk, isLk := in.(*ssa.Lookup)
		if !isLk || canon(lk.X) != ssa.Value(mp) || !lk.CommaOk || lk.Referrers() == nil {
			return
		}
		var okV, valV ssa.Value
		for _, r := range *lk.Referrers() {
			if e, isE := r.(*ssa.Extract); isE {
				if e.Index == 1 {
					okV = e
				} else {
					valV = e
				}
			}
		}
		for _, b := range fn.Blocks {
			iff, isIf := condOf(b)
			if !isIf {
				continue
			}
			if m, onTrue := boolValueCond(okV)(iff.Cond); m && okV != nil {
				if c.edgeReturnsFalse(b, !onTrue) {
					okMiss = true
				}
			}
			if op, x, y, isCmp := cmpOf(iff.Cond); isCmp && (op == token.NEQ || op == token.EQL) && valV != nil {
				fx, _ := loadedField(stripConv(x))
				fy, _ := loadedField(stripConv(y))
				isVal := (canon(x) == valV && fy != nil && fy.Name() == "Value") || (canon(y) == valV && fx != nil && fx.Name() == "Value")
				if isVal && c.edgeReturnsFalse(b, op == token.NEQ) {
					okDiff = true
				}
			}
		}
	})
	ok := lenCmp && lookup && valCmp && nameKey && ranges
	if ok && !(okMiss && okDiff) {
		c.bad(rule, key, fn.Pos(), fmt.Sprintf("the tag equality predicate does not return false for every element whose name is missing from the requested map (%v) or whose value differs (%v): a tag slice cached under the same 64-bit key for a different tag set is accepted as equal", okMiss, okDiff))
		return
	}
	c.check(ok, rule, key, fn.Pos(), "equal length, and every cached (name, value) is present in the requested map with the same value",
		fmt.Sprintf("the tag equality predicate is incomplete (length compared: %v, name looked up: %v, value compared: %v): different tag sets are taken for equal", lenCmp, lookup && nameKey, valCmp))
}
