package main

import (
	"go/ast"
	"go/token"
	"go/types"

	"golang.org/x/tools/go/ssa"
)

// selField resolves a selector expression x.f to the struct field it denotes.
func selField(info *types.Info, e ast.Expr) *types.Var {
	e = ast.Unparen(e)
	se, ok := e.(*ast.SelectorExpr)
	if !ok {
		return nil
	}
	if sel := info.Selections[se]; sel != nil && sel.Kind() == types.FieldVal {
		if v, ok := sel.Obj().(*types.Var); ok {
			return v
		}
	}
	return nil
}

// hasEscape reports whether the statement list contains break/continue/goto/return that leaves
// the enclosing loop (nested loops' own break/continue are fine, labelled ones are not).
func hasLoopEscape(body *ast.BlockStmt) (token.Pos, bool) {
	var pos token.Pos
	found := false
	var visit func(n ast.Node, depth int)
	visit = func(n ast.Node, depth int) {
		if n == nil || found {
			return
		}
		switch x := n.(type) {
		case *ast.FuncLit:
			return
		case *ast.ReturnStmt:
			pos, found = x.Pos(), true
			return
		case *ast.BranchStmt:
			if x.Tok == token.GOTO || x.Label != nil || depth == 0 && (x.Tok == token.BREAK || x.Tok == token.CONTINUE) {
				pos, found = x.Pos(), true
			}
			return
		case *ast.ForStmt:
			visit(x.Body, depth+1)
			return
		case *ast.RangeStmt:
			visit(x.Body, depth+1)
			return
		case *ast.SwitchStmt, *ast.TypeSwitchStmt, *ast.SelectStmt:
			// break inside a switch leaves the switch, not the loop; continue still leaves
			ast.Inspect(n, func(m ast.Node) bool {
				if found {
					return false
				}
				switch y := m.(type) {
				case *ast.FuncLit:
					return false
				case *ast.ReturnStmt:
					pos, found = y.Pos(), true
				case *ast.BranchStmt:
					if y.Tok == token.GOTO || y.Label != nil || (depth == 0 && y.Tok == token.CONTINUE) {
						pos, found = y.Pos(), true
					}
				}
				return true
			})
			return
		}
		ast.Inspect(n, func(m ast.Node) bool {
			if m == n {
				return true
			}
			if m == nil || found {
				return false
			}
			visit(m, depth)
			return false
		})
	}
	visit(body, 0)
	return pos, found
}

// deliversToReporter: the lifted predicate "calls into a reporter interface of package tally".
func (c *Ctx) reporterInvokePred() Pred {
	names := map[string]bool{"StatsReporter": true, "CachedStatsReporter": true, "CachedCount": true, "CachedGauge": true,
		"CachedTimer": true, "CachedHistogram": true, "CachedHistogramBucket": true, "BaseStatsReporter": true}
	return func(in ssa.Instruction) bool {
		call, ok := in.(ssa.CallInstruction)
		if !ok {
			return false
		}
		recv, m := ifaceCall(call)
		if m == nil {
			return false
		}
		n, ok := recv.Type().(*types.Named)
		if !ok || n.Obj().Pkg() == nil || n.Obj().Pkg().Path() != modPath {
			return false
		}
		return names[n.Obj().Name()]
	}
}

func nonRange(list []ast.Stmt) []ast.Stmt {
	var out []ast.Stmt
	for _, s := range list {
		if _, ok := s.(*ast.RangeStmt); !ok {
			out = append(out, s)
		}
	}
	return out
}
