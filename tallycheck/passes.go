package main

import (
	"fmt"
	"go/ast"
	"go/token"
	"go/types"

	"golang.org/x/tools/go/ssa"
)

// selField resolves a selector expression x.f to the struct field it denotes.
func selField(info *types.Info, e ast.Expr) *types.Var {
	e = ast.Unparen(e)
	se, ok := e.(*ast.SelectorExpr)
	if !ok {
		return nil
	}
	if sel := info.Selections[se]; sel != nil && sel.Kind() == types.FieldVal {
		if v, ok := sel.Obj().(*types.Var); ok {
			return v
		}
	}
	return nil
}

// hasEscape reports whether the statement list contains break/continue/goto/return that leaves
// the enclosing loop (nested loops' own break/continue are fine, labelled ones are not).
func hasLoopEscape(body *ast.BlockStmt) (token.Pos, bool) {
	var pos token.Pos
	found := false
	var visit func(n ast.Node, depth int)
	visit = func(n ast.Node, depth int) {
		if n == nil || found {
			return
		}
		switch x := n.(type) {
		case *ast.FuncLit:
			return
		case *ast.ReturnStmt:
			pos, found = x.Pos(), true
			return
		case *ast.BranchStmt:
			if x.Tok == token.GOTO || x.Label != nil || depth == 0 && (x.Tok == token.BREAK || x.Tok == token.CONTINUE) {
				pos, found = x.Pos(), true
			}
			return
		case *ast.ForStmt:
			visit(x.Body, depth+1)
			return
		case *ast.RangeStmt:
			visit(x.Body, depth+1)
			return
		case *ast.SwitchStmt, *ast.TypeSwitchStmt, *ast.SelectStmt:
			// break inside a switch leaves the switch, not the loop; continue still leaves
			ast.Inspect(n, func(m ast.Node) bool {
				if found {
					return false
				}
				switch y := m.(type) {
				case *ast.FuncLit:
					return false
				case *ast.ReturnStmt:
					pos, found = y.Pos(), true
				case *ast.BranchStmt:
					if y.Tok == token.GOTO || y.Label != nil || (depth == 0 && y.Tok == token.CONTINUE) {
						pos, found = y.Pos(), true
					}
				}
				return true
			})
			return
		}
		ast.Inspect(n, func(m ast.Node) bool {
			if m == n {
				return true
			}
			if m == nil || found {
				return false
			}
			visit(m, depth)
			return false
		})
	}
	visit(body, 0)
	return pos, found
}

// deliversToReporter: the lifted predicate "calls into a reporter interface of package tally".
func (c *Ctx) reporterInvokePred() Pred {
	names := map[string]bool{"StatsReporter": true, "CachedStatsReporter": true, "CachedCount": true, "CachedGauge": true,
		"CachedTimer": true, "CachedHistogram": true, "CachedHistogramBucket": true, "BaseStatsReporter": true}
	return func(in ssa.Instruction) bool {
		call, ok := in.(ssa.CallInstruction)
		if !ok {
			return false
		}
		recv, m := ifaceCall(call)
		if m == nil {
			return false
		}
		n, ok := recv.Type().(*types.Named)
		if !ok || n.Obj().Pkg() == nil || n.Obj().Pkg().Path() != modPath {
			return false
		}
		return names[n.Obj().Name()]
	}
}

// checkScopePassCoverage: in scope.report / scope.cachedReport the loop over one metric kind
// ranges over the whole field, cannot leave early, and calls that element's delivery function
// exactly once per element, unconditionally (C01 O7 / C02 O5).
func (c *Ctx) checkScopePassCoverage(rule, mapField, sliceField, elemType string) {
	info := c.pkg("").TypesInfo
	elem := c.named("", elemType)
	if elem == nil {
		c.missing(rule, "type tally."+elemType)
		return
	}
	lift := c.newLifter(c.reporterInvokePred(), 3)
	for _, pass := range []struct{ fn, field string }{{"report", mapField}, {"cachedReport", sliceField}} {
		key := "scope." + pass.fn + "/" + pass.field
		fn := c.fn("", "scope", pass.fn)
		fld := c.field("", "scope", pass.field)
		if fn == nil || fld == nil {
			c.missing(rule, "tally.scope."+pass.fn+" / field scope."+pass.field)
			continue
		}
		c.sawFunc(c.fnKey(fn))
		decl := c.funcDecl(fn)
		if decl == nil {
			c.undecided(rule, key, fn.Pos(), "no syntax for function")
			continue
		}
		var loops []*ast.RangeStmt
		var otherUse token.Pos
		ast.Inspect(decl.Body, func(n ast.Node) bool {
			switch x := n.(type) {
			case *ast.RangeStmt:
				if selField(info, x.X) == fld {
					loops = append(loops, x)
				} else {
					// a range over a sub-slice / derived expression of the field
					ast.Inspect(x.X, func(m ast.Node) bool {
						if e, ok := m.(ast.Expr); ok && selField(info, e) == fld {
							otherUse = x.Pos()
						}
						return true
					})
				}
			case *ast.ForStmt:
				ast.Inspect(x, func(m ast.Node) bool {
					if e, ok := m.(ast.Expr); ok && selField(info, e) == fld && otherUse == token.NoPos {
						otherUse = x.Pos()
					}
					return true
				})
			}
			return true
		})
		if len(loops) != 1 {
			msg := fmt.Sprintf("expected exactly one `range s.%s` over the whole field in %s, found %d", pass.field, pass.fn, len(loops))
			if otherUse != token.NoPos {
				msg += " (the field is iterated through a derived expression or an index loop; only a range over the field itself is known to visit every element once)"
				c.bad(rule, key, otherUse, msg)
			} else {
				c.bad(rule, key, fn.Pos(), msg+": metrics of this kind are never (or repeatedly) reported by this pass")
			}
			continue
		}
		loop := loops[0]
		if pos, esc := hasLoopEscape(loop.Body); esc {
			c.bad(rule, key, pos, "the loop over "+pass.field+" can be left or cut short (break/continue/return): some metrics are skipped by the pass")
			continue
		}
		// value variable of the range
		var valObj types.Object
		if id, ok := loop.Value.(*ast.Ident); ok && id.Name != "_" {
			valObj = info.Defs[id]
		}
		if valObj == nil {
			c.bad(rule, key, loop.Pos(), "the loop does not bind the element (range value) it should report")
			continue
		}
		// top-level statements of the body that call a delivery method on the element
		n, conditional := 0, 0
		var badPos token.Pos
		ast.Inspect(loop.Body, func(nd ast.Node) bool {
			call, ok := nd.(*ast.CallExpr)
			if !ok {
				return true
			}
			se, ok := call.Fun.(*ast.SelectorExpr)
			if !ok {
				return true
			}
			id, ok := ast.Unparen(se.X).(*ast.Ident)
			if !ok || info.Uses[id] != valObj {
				return true
			}
			sel := info.Selections[se]
			if sel == nil || sel.Kind() != types.MethodVal {
				return true
			}
			mfn := c.SSA.FuncValue(sel.Obj().(*types.Func))
			if mfn == nil || !lift.fnMay(mfn, 3) {
				return true
			}
			n++
			// must be a direct statement of the loop body
			direct := false
			for _, st := range loop.Body.List {
				if es, ok := st.(*ast.ExprStmt); ok && es.X == ast.Expr(call) {
					direct = true
				}
			}
			if !direct {
				conditional++
				badPos = call.Pos()
			}
			return true
		})
		switch {
		case n == 0:
			c.bad(rule, key, loop.Pos(), "the loop over "+pass.field+" does not call the element's delivery function: metrics of this kind are never reported by this pass")
		case n > 1:
			c.bad(rule, key, loop.Pos(), fmt.Sprintf("the loop over %s calls %d delivery functions per element (expected one)", pass.field, n))
		case conditional > 0:
			c.bad(rule, key, badPos, "the element's delivery call is conditional or nested: some metrics are skipped by the pass")
		default:
			c.ok(rule, key, loop.Pos(), "one unconditional delivery call per element, range over the whole field, no early exit")
		}
	}
}

// checkRegistryPassCoverage: the registry pass ranges over all shards and over every scope of a
// shard and reports each visited scope unconditionally (direct statement of the inner loop body,
// not preceded by anything that can skip it).
func (c *Ctx) checkRegistryPassCoverage(rule, pass, reportMethod string) {
	fn := c.fn("", "scopeRegistry", pass)
	fSub, fS := c.field("", "scopeRegistry", "subscopes"), c.field("", "scopeBucket", "s")
	rep := c.fn("", "scope", reportMethod)
	if fn == nil || fSub == nil || fS == nil || rep == nil {
		c.missing(rule, "tally.scopeRegistry."+pass+" / subscopes / scopeBucket.s / scope."+reportMethod)
		return
	}
	key := c.fnKey(fn)
	c.sawFunc(key)
	decl := c.funcDecl(fn)
	info := c.typesInfo(fn)
	var outer, inner *ast.RangeStmt
	for _, st := range decl.Body.List {
		if rs, ok := st.(*ast.RangeStmt); ok && selField(info, rs.X) == fSub {
			outer = rs
		}
	}
	if outer == nil {
		c.bad(rule, key, fn.Pos(), "the pass does not range over all registry shards (r.subscopes) at the top level of its body: scopes of some shards are never reported")
		return
	}
	var outerVal types.Object
	if id, ok := outer.Value.(*ast.Ident); ok {
		outerVal = info.Defs[id]
	}
	for _, st := range outer.Body.List {
		if rs, ok := st.(*ast.RangeStmt); ok && selField(info, rs.X) == fS {
			if se, isSel := ast.Unparen(rs.X).(*ast.SelectorExpr); isSel {
				if id, isId := ast.Unparen(se.X).(*ast.Ident); isId && outerVal != nil && info.Uses[id] == outerVal {
					inner = rs
				}
			}
		}
	}
	if inner == nil {
		c.bad(rule, key, outer.Pos(), "inside the shard loop the pass does not range over every scope of the shard (bucket.s)")
		return
	}
	// the outer loop must not be cut short
	if pos, esc := hasLoopEscape(&ast.BlockStmt{List: nonRange(outer.Body.List)}); esc {
		c.bad(rule, key, pos, "the shard loop can be left early: later shards are not reported")
		return
	}
	var sObj types.Object
	if id, ok := inner.Value.(*ast.Ident); ok {
		sObj = info.Defs[id]
	}
	// find the report statement among the direct statements; nothing before it may skip it
	found := false
	for _, st := range inner.Body.List {
		if es, ok := st.(*ast.ExprStmt); ok {
			if call, isCall := es.X.(*ast.CallExpr); isCall {
				if se, isSel := call.Fun.(*ast.SelectorExpr); isSel {
					if id, isId := ast.Unparen(se.X).(*ast.Ident); isId && sObj != nil && info.Uses[id] == sObj {
						if sel := info.Selections[se]; sel != nil && c.SSA.FuncValue(sel.Obj().(*types.Func)) == rep {
							found = true
							break
						}
					}
				}
			}
		}
		// statements before the report: must not be able to leave the iteration
		if pos, esc := hasLoopEscape(&ast.BlockStmt{List: []ast.Stmt{st}}); esc {
			c.bad(rule, key, pos, "a scope can be skipped (continue/break/return) before it is reported: what it recorded is not delivered by this pass")
			return
		}
	}
	if !found {
		c.bad(rule, key, inner.Pos(), "the visited scope's "+reportMethod+" is not called as an unconditional statement of the per-scope loop")
		return
	}
	// after the report the iteration may remove the scope but must not leave the loop
	for _, st := range inner.Body.List {
		ast.Inspect(st, func(n ast.Node) bool {
			if b, ok := n.(*ast.BranchStmt); ok && (b.Tok == token.BREAK || b.Tok == token.GOTO) {
				c.bad(rule, key, b.Pos(), "the per-scope loop can be left early: later scopes of the shard are not reported")
				found = false
			}
			if r, ok := n.(*ast.ReturnStmt); ok {
				c.bad(rule, key, r.Pos(), "the pass returns from inside the per-scope loop")
				found = false
			}
			return true
		})
	}
	if found {
		c.ok(rule, key, inner.Pos(), "all shards, all scopes of a shard, each reported unconditionally")
	}
}

func nonRange(list []ast.Stmt) []ast.Stmt {
	var out []ast.Stmt
	for _, s := range list {
		if _, ok := s.(*ast.RangeStmt); !ok {
			out = append(out, s)
		}
	}
	return out
}
