package main

import (
	"fmt"
	"go/token"
	"go/types"
	"strings"

	"golang.org/x/tools/go/ssa"
)

func init() { register("C14", checkC14) }

// chanOp describes one operation on a channel held in a struct field.
type chanOp struct {
	Kind  string // send | recv | close | select-send | select-recv | range
	Field *types.Var
	Instr ssa.Instruction
}

// chanOpsOf lists the channel operations of fn on channels loaded from struct fields.
func chanOpsOf(fn *ssa.Function) []chanOp {
	var out []chanOp
	fieldOfChan := func(v ssa.Value) *types.Var {
		f, _ := loadedField(canon(v))
		if f == nil {
			f, _ = loadedField(v)
		}
		return f
	}
	instrsOf(fn, func(in ssa.Instruction) {
		switch x := in.(type) {
		case *ssa.Send:
			if f := fieldOfChan(x.Chan); f != nil {
				out = append(out, chanOp{"send", f, in})
			}
		case *ssa.UnOp:
			if x.Op == token.ARROW {
				if f := fieldOfChan(x.X); f != nil {
					out = append(out, chanOp{"recv", f, in})
				}
			}
		case *ssa.Select:
			for _, st := range x.States {
				if f := fieldOfChan(st.Chan); f != nil {
					k := "select-recv"
					if st.Dir == types.SendOnly {
						k = "select-send"
					}
					out = append(out, chanOp{k, f, in})
				}
			}
		case *ssa.Call:
			if isBuiltin(x, "close") {
				if f := fieldOfChan(x.Call.Args[0]); f != nil {
					out = append(out, chanOp{"close", f, in})
				}
			}
		case *ssa.Range:
			if f := fieldOfChan(x.X); f != nil {
				out = append(out, chanOp{"range", f, in})
			}
		}
	})
	return out
}

// boolLoadCond: cond is (possibly negated) the boolean value v; returns (match, onTrue).
func boolValueCond(v ssa.Value) func(ssa.Value) (bool, bool) {
	return func(cond ssa.Value) (bool, bool) {
		neg := false
		for {
			if u, ok := cond.(*ssa.UnOp); ok && u.Op == token.NOT {
				neg = !neg
				cond = u.X
				continue
			}
			break
		}
		if cond == v {
			return true, !neg
		}
		return false, false
	}
}

func checkC14(c *Ctx) {
	c.Explanation = "Decides the M3 shutdown hand-shake and handle re-entrancy structurally: (O1) every function that sends on the metric queue increments the in-flight count, then loads done (leaving without sending when set), then sends, and decrements the count on every exit, each exactly once per call; (O2) the queue and the done channel are closed in one function only, after the successful CAS on done and after the loop that waits for the in-flight count to reach zero, and a failed CAS returns a non-nil error without closing; with sequentially consistent atomics this ordering is necessary and sufficient for 'no send on a closed channel'; (O3) every goroutine the constructor starts is preceded by wg.Add(1), defers wg.Done(), the batching goroutine leaves only when the queue is closed, the clock goroutine leaves on the done channel, and Close waits for both after closing; (O4) the reporter's counters/flags are atomic-only and every cached-handle method or closure stores only into its own locals (re-entrant handles); (O5) every binary-search result in package m3 is range-checked before it is used as an index."
	c.Explanation += " Added later: no send on the queue is reachable after a non-deferred decrement of the in-flight count; the cached tag slice is never appended to in place (shared with C12)."
	c.Explanation += " Added by round 9: (O4 no-send-under-lock) no mutex of the reporter's packages is held at an operation that can reach a blocking channel send."
	c.NotDecided = []string{"absence of deadlock as a liveness theorem", "behaviour of the UDP socket under faults (C15)"}
	c.Assumptions = append(c.Assumptions, "Go atomics are sequentially consistent")

	const pk = "m3"
	fMetCh, fDoneCh, fDone, fPending, fWg := c.field(pk, "reporter", "metCh"), c.field(pk, "reporter", "donech"), c.field(pk, "reporter", "done"), c.field(pk, "reporter", "pending"), c.field(pk, "reporter", "wg")
	if fMetCh == nil || fDoneCh == nil || fDone == nil || fPending == nil || fWg == nil {
		c.missing("O1 enter-protocol", "m3.reporter{metCh,donech,done,pending,wg}")
		return
	}
	for _, f := range []string{"done", "pending", "now", "numBatches", "numMetrics", "numWriteErrors"} {
		c.checkAtomicOnly("O4 atomic-only", pk, "reporter", f)
	}

	isAtomic := func(fld *types.Var, kinds ...string) Pred {
		return func(in ssa.Instruction) bool {
			op := atomicOpOf(in)
			if op == nil || op.Field != fld {
				return false
			}
			for _, k := range kinds {
				if op.Kind == k {
					return true
				}
			}
			return false
		}
	}
	isIncr := func(in ssa.Instruction) bool {
		if !isAtomic(fPending, "add")(in) {
			return false
		}
		f := staticCallee(asCall(in))
		return f != nil && (f.Name() == "Inc" || f.Name() == "Add")
	}
	isDecr := func(in ssa.Instruction) bool {
		if !isAtomic(fPending, "add")(in) {
			return false
		}
		f := staticCallee(asCall(in))
		return f != nil && (f.Name() == "Dec" || f.Name() == "Sub")
	}

	// ---- O1 enter protocol ------------------------------------------------------------------
	nSenders := 0
	var closers []*ssa.Function
	for _, fn := range c.funcsOfPkg(pk) {
		ops := chanOpsOf(fn)
		var sends []ssa.Instruction
		closes := false
		for _, op := range ops {
			if op.Field == fMetCh && (op.Kind == "send" || op.Kind == "select-send") {
				sends = append(sends, op.Instr)
			}
			if (op.Field == fMetCh || op.Field == fDoneCh) && op.Kind == "close" {
				closes = true
			}
		}
		if closes {
			closers = append(closers, fn)
		}
		if len(sends) == 0 {
			continue
		}
		nSenders++
		key := c.fnKey(fn)
		c.sawFunc(key)
		incs := findInstrs(fn, isIncr)
		loads := findInstrs(fn, isAtomic(fDone, "load"))
		okAll := true
		fail := func(pos token.Pos, msg string, trail ...string) {
			okAll = false
			c.bad("O1 enter-protocol", key, pos, msg, trail...)
		}
		if len(incs) != 1 {
			fail(fn.Pos(), fmt.Sprintf("the function sends on the metric queue but raises the in-flight count %d times (expected once, before the done check)", len(incs)))
			continue
		}
		inc := incs[0]
		if _, isDefer := inc.(*ssa.Defer); isDefer {
			fail(inc.Pos(), "the in-flight count is raised by a deferred call, i.e. after the send")
			continue
		}
		for _, s := range sends {
			c.callSites++
			// some done.Load between inc and send, whose false outcome guards the send
			okGuard := false
			for _, l := range loads {
				lv, isV := l.(ssa.Value)
				if !isV || !dominates(inc, l) || !dominates(l, s) {
					continue
				}
				g := guardedByEdge(s, func(cond ssa.Value) (bool, bool) { m, t := boolValueCond(lv)(cond); return m, !t })
				if g != nil {
					okGuard = true
				}
			}
			if !dominates(inc, s) {
				fail(s.Pos(), "the send on the metric queue is not preceded by raising the in-flight count", c.describe(s))
				continue
			}
			if !okGuard {
				var first ssa.Instruction
				for _, l := range loads {
					if dominates(l, s) {
						first = l
					}
				}
				if first != nil && !dominates(inc, first) {
					fail(inc.Pos(), "the in-flight count is raised after the done flag is checked: Close can observe a zero count between the check and the increment, close the queue, and this send panics with 'send on closed channel'",
						"done check: "+c.describe(first), "increment: "+c.describe(inc), "send: "+c.describe(s))
				} else {
					fail(s.Pos(), "the send on the metric queue is not restricted to the 'done flag not set' outcome of a done.Load() made after the in-flight count was raised: a call made after Close sends on the closed queue", c.describe(s))
				}
			}
		}
		// the count stays raised until the send is over: no send is reachable after a (non-deferred)
		// decrement - otherwise Close sees zero, closes the queue and this send panics
		for _, d := range findInstrs(fn, isDecr) {
			if _, isDefer := d.(*ssa.Defer); isDefer {
				continue
			}
			for _, snd := range sends {
				snd := snd
				if reachAvoiding(d, false, func(i ssa.Instruction) bool { return i == snd }, nil) != nil {
					fail(d.Pos(), "the in-flight count is lowered before the send on the metric queue: Close can observe zero, close the queue, and the send that follows panics with 'send on closed channel'", "decrement: "+c.describe(d), "send: "+c.describe(snd))
				}
			}
		}
		// Dec on every exit after the Inc, exactly once
		decLift := c.newLifter(isDecr, 2)
		if esc := reachAvoiding(inc, false, isReturn, decLift.Must); esc != nil {
			fail(esc.Pos(), "an exit of the function is reached without lowering the in-flight count: Close spins forever waiting for it to drain", "increment: "+c.describe(inc), "exit: "+c.describe(esc))
		}
		cd := c.newPathCounter(isDecr, 2).fn(fn, 2)
		ci := c.newPathCounter(isIncr, 2).fn(fn, 2)
		c.paths += 2
		if cd.min != 1 || cd.max != 1 || ci.min != 1 || ci.max != 1 {
			fail(fn.Pos(), fmt.Sprintf("the in-flight count is not raised and lowered exactly once per call (inc %d..%d, dec %d..%d)", ci.min, ci.max, cd.min, cd.max))
		}
		// the done flag must only be loaded here, not written
		for _, w := range findInstrs(fn, isAtomic(fDone, "store", "swap", "cas", "add")) {
			fail(w.Pos(), "a sender writes the done flag", c.describe(w))
		}
		if okAll {
			c.ok("O1 enter-protocol", key, inc.Pos(), "pending.Inc -> done.Load (leave if set) -> send; pending.Dec on every exit; each exactly once")
		}
	}
	c.floor("O1 enter-protocol", nSenders, 2)

	// ---- O1b nothing else blocks while counted in flight ---------------------------------------------
	// Close spins until the in-flight count is zero: a function that raised the count may block only in
	// the hand-over itself (send on the queue, alone or in a select with the done channel). Any other
	// wait (a receive, a send on another channel, WaitGroup/Cond wait, sleep) inside such a function
	// or its callees can keep the count raised for ever and hang Close.
	var foreignWait func(fn *ssa.Function, depth int, seen map[*ssa.Function]bool) ssa.Instruction
	foreignWait = func(fn *ssa.Function, depth int, seen map[*ssa.Function]bool) ssa.Instruction {
		if fn == nil || fn.Blocks == nil || depth < 0 || seen[fn] {
			return nil
		}
		seen[fn] = true
		var bad ssa.Instruction
		chanField := func(v ssa.Value) *types.Var {
			f, _ := loadedField(canon(v))
			if f == nil {
				f, _ = loadedField(v)
			}
			return f
		}
		instrsOf(fn, func(in ssa.Instruction) {
			if bad != nil {
				return
			}
			switch x := in.(type) {
			case *ssa.Send:
				if chanField(x.Chan) != fMetCh {
					bad = in
				}
			case *ssa.UnOp:
				if x.Op == token.ARROW {
					bad = in
				}
			case *ssa.Select:
				if x.Blocking {
					for _, st := range x.States {
						if f := chanField(st.Chan); f != fMetCh && f != fDoneCh {
							bad = in
						}
					}
				}
			case *ssa.Range:
				if _, isCh := x.X.Type().Underlying().(*types.Chan); isCh {
					bad = in
				}
			case ssa.CallInstruction:
				if _, isGo := in.(*ssa.Go); isGo {
					return
				}
				if pkg, typ, m := recvNamed(x); pkg == "sync" && (typ == "WaitGroup" || typ == "Cond") && m == "Wait" {
					bad = in
					return
				}
				if g := staticCallee(x); g != nil {
					if g.Pkg != nil && g.Pkg.Pkg.Path() == "time" && g.Name() == "Sleep" {
						bad = in
						return
					}
					if c.inModule(g) {
						if w := foreignWait(g, depth-1, seen); w != nil {
							bad = w
						}
					}
				}
			}
		})
		return bad
	}
	nInFlight := 0
	for _, fn := range c.funcsOfPkg(pk) {
		if len(findInstrs(fn, isIncr)) == 0 {
			continue
		}
		nInFlight++
		key := c.fnKey(fn)
		if w := foreignWait(fn, 3, map[*ssa.Function]bool{}); w != nil {
			c.bad("O1 no-foreign-wait", key, w.Pos(), "a function that is counted in flight waits for something other than the hand-over to the queue: if that wait never ends (the peer already left, the batch was empty, the reporter is closing) the count stays raised and Close spins for ever", c.describe(w))
		} else {
			c.ok("O1 no-foreign-wait", key, fn.Pos(), "while counted in flight the function (and its callees) block only in the send on the queue / the select with the done channel")
		}
	}
	c.floor("O1 no-foreign-wait", nInFlight, 2)

	// ---- O2 close protocol --------------------------------------------------------------------
	if len(closers) != 1 {
		c.bad("O2 close-protocol", "m3.reporter.metCh/donech", token.NoPos, fmt.Sprintf("the queue / done channel are closed in %d functions (exactly one, Close, may do it)", len(closers)))
	}
	for _, fn := range closers {
		key := c.fnKey(fn)
		c.sawFunc(key)
		okAll := true
		fail := func(pos token.Pos, msg string, trail ...string) {
			okAll = false
			c.bad("O2 close-protocol", key, pos, msg, trail...)
		}
		cass := findInstrs(fn, isAtomic(fDone, "cas"))
		if len(cass) != 1 {
			for _, w := range findInstrs(fn, isAtomic(fDone, "store", "swap")) {
				fail(w.Pos(), "the done flag is set by a plain store/swap, not by a compare-and-swap whose success is tested: two concurrent Close calls both close the channels (panic: close of closed channel)", c.describe(w))
			}
			if okAll {
				fail(fn.Pos(), "the closing function does not set the done flag by exactly one compare-and-swap")
			}
			continue
		}
		cas := cass[0]
		op := atomicOpOf(cas)
		o, okO := constBool(op.Args[0])
		n, okN := constBool(op.Args[1])
		if !okO || !okN || o || !n {
			fail(cas.Pos(), "the compare-and-swap on done is not false -> true", c.describe(cas))
		}
		casV := cas.(ssa.Value)
		casTrue := boolValueCond(casV)
		var closes []ssa.Instruction
		kinds := map[*types.Var]int{}
		for _, co := range chanOpsOf(fn) {
			if co.Kind == "close" && (co.Field == fMetCh || co.Field == fDoneCh) {
				closes = append(closes, co.Instr)
				kinds[co.Field]++
			}
		}
		if kinds[fMetCh] != 1 || kinds[fDoneCh] != 1 {
			fail(fn.Pos(), "the closing function does not close each of the queue and the done channel exactly once")
		}
		// drain loop: a conditional on pending.Load() whose "zero" edge dominates the closes
		drained := func(cond ssa.Value) (bool, bool) {
			opc, x, y, ok := cmpOf(cond)
			if !ok {
				return false, false
			}
			if k, isK := constInt(x); isK && k == 0 {
				x, y = y, x
				opc = flipCmp(opc)
			}
			k, isK := constInt(y)
			if !isK || k != 0 {
				return false, false
			}
			ld, isCall := stripConv(x).(*ssa.Call)
			if !isCall {
				return false, false
			}
			aop := atomicOpOf(ld)
			if aop == nil || aop.Field != fPending || aop.Kind != "load" {
				return false, false
			}
			switch opc {
			case token.GTR, token.NEQ:
				return true, false
			case token.EQL, token.LEQ:
				return true, true
			}
			return false, false
		}
		for _, cl := range closes {
			if guardedByEdge(cl, casTrue) == nil {
				fail(cl.Pos(), "a channel is closed on a path where the compare-and-swap on done did not succeed: a second Close closes a closed channel (panic)", c.describe(cl))
			}
			g := guardedByEdge(cl, drained)
			if g == nil {
				fail(cl.Pos(), "a channel is closed without first waiting for the in-flight count to reach zero: a sender that passed the done check sends on the closed queue (panic)", c.describe(cl))
			} else if !dominates(cas, g) {
				fail(g.Pos(), "the drain loop runs before the done flag is set: a sender can enter after the loop saw zero", c.describe(g))
			}
		}
		// failed CAS returns a non-nil error
		for _, r := range returnsOf(fn) {
			if guardedByEdge(r, func(cond ssa.Value) (bool, bool) { m, t := casTrue(cond); return m, !t }) != nil {
				if len(r.Results) != 1 || isNilConst(r.Results[0]) {
					fail(r.Pos(), "a second Close (failed compare-and-swap) does not return an error", c.describe(r))
				}
			}
		}
		// wg.Wait after the closes, before returning
		isWait := func(in ssa.Instruction) bool {
			call := asCall(in)
			if call == nil {
				return false
			}
			pkg, typ, m := recvNamed(call)
			if pkg != "sync" || typ != "WaitGroup" || m != "Wait" {
				return false
			}
			f, _ := addrField(call.Common().Args[0])
			return f == fWg
		}
		for _, cl := range closes {
			if esc := reachAvoiding(cl, false, isReturn, c.newLifter(isWait, 1).Must); esc != nil {
				fail(esc.Pos(), "Close can return after closing the channels without waiting for the worker goroutines (wg.Wait): queued metrics may not have been emitted and goroutines are left running", c.describe(esc))
				break
			}
		}
		if okAll {
			c.ok("O2 close-protocol", key, cas.Pos(), "CAS(done,false,true) succeeded -> wait pending == 0 -> close(donech), close(metCh) -> wg.Wait; failed CAS returns an error")
		}
	}

	// ---- O3 goroutine lifecycle -----------------------------------------------------------------
	c.checkM3Goroutines("O3 goroutines", fWg, fMetCh, fDoneCh)

	// ---- O3b the goroutine that drains the queue never sends on it ----------------------------------
	// (it is the only consumer: with fewer free slots than it wants to add it blocks on its own queue,
	// counted in flight, and every producer, Flush and Close block behind it for ever)
	{
		var consumers []*ssa.Function
		for _, fn := range c.funcsOfPkg(pk) {
			for _, op := range chanOpsOf(fn) {
				if op.Field == fMetCh && (op.Kind == "recv" || op.Kind == "range" || op.Kind == "select-recv") {
					consumers = append(consumers, fn)
					break
				}
			}
		}
		sendsOnQueue := func(fn *ssa.Function) ssa.Instruction {
			for _, op := range chanOpsOf(fn) {
				if op.Field == fMetCh && (op.Kind == "send" || op.Kind == "select-send") {
					return op.Instr
				}
			}
			return nil
		}
		// a blocking send on ANY channel (outside a select with a default) in the goroutine Close waits
		// for: nobody may be receiving when it happens - e.g. a result handed to Close on an unbuffered
		// channel while Close is still in wg.Wait()
		blockingSend := func(fn *ssa.Function) ssa.Instruction {
			var found ssa.Instruction
			instrsOf(fn, func(in ssa.Instruction) {
				if found != nil {
					return
				}
				switch x := in.(type) {
				case *ssa.Send:
					found = x
				case *ssa.Select:
					if x.Blocking {
						for _, st := range x.States {
							if st.Dir == types.SendOnly {
								found = x
							}
						}
					}
				}
			})
			return found
		}
		// callees: static ones, and for interface calls every method of this package with that name
		// whose receiver implements the interface (the reporter's own cached handles)
		pkgFuncs := c.funcsOfPkg(pk)
		calleesOf := func(fn *ssa.Function) []*ssa.Function {
			var out []*ssa.Function
			instrsOf(fn, func(in ssa.Instruction) {
				ci, ok := in.(ssa.CallInstruction)
				if !ok {
					return
				}
				if _, isGo := in.(*ssa.Go); isGo {
					return // a new goroutine does not block this one
				}
				com := ci.Common()
				if g := com.StaticCallee(); g != nil {
					if c.inModule(g) && g.Blocks != nil {
						out = append(out, g)
					}
					return
				}
				if com.IsInvoke() {
					iface, _ := com.Value.Type().Underlying().(*types.Interface)
					for _, g := range pkgFuncs {
						if g.Name() != com.Method.Name() || g.Signature.Recv() == nil || iface == nil {
							continue
						}
						rt := g.Signature.Recv().Type()
						if types.Implements(rt, iface) || types.Implements(types.NewPointer(rt), iface) {
							out = append(out, g)
						}
					}
				}
				if mc, isMC := com.Value.(*ssa.MakeClosure); isMC {
					if g, isF := mc.Fn.(*ssa.Function); isF {
						out = append(out, g)
					}
				}
			})
			return out
		}
		for _, fn := range consumers {
			key := c.fnKey(fn)
			c.sawFunc(key)
			var bad, badSend ssa.Instruction
			var via, viaSend []string
			seenF := map[*ssa.Function]bool{fn: true}
			type item struct {
				f     *ssa.Function
				trail []string
				d     int
			}
			queue := []item{{fn, nil, 0}}
			for len(queue) > 0 && bad == nil {
				it := queue[0]
				queue = queue[1:]
				if it.f != fn {
					if s := sendsOnQueue(it.f); s != nil {
						bad, via = s, it.trail
						break
					}
				}
				if s := blockingSend(it.f); s != nil {
					badSend, viaSend = s, it.trail
				}
				if it.d >= 6 {
					continue
				}
				for _, g := range calleesOf(it.f) {
					if !seenF[g] {
						seenF[g] = true
						queue = append(queue, item{g, append(append([]string{}, it.trail...), c.fnKey(g)), it.d + 1})
					}
				}
			}
			c.check(bad == nil, "O3 consumer-never-produces", key, fn.Pos(), "the batching goroutine (and what it calls, interface calls resolved to this package's handles) never sends on the queue it drains",
				"the goroutine that drains the metric queue can itself send on that queue (call chain: "+strings.Join(via, " -> ")+"): when the queue has fewer free slots than it wants to add it blocks on its own queue while counted in flight, so every producer, Flush and Close hang", func() string {
					if bad != nil {
						return c.describe(bad)
					}
					return ""
				}())
			c.check(badSend == nil, "O3 worker-never-blocks-on-send", key, fn.Pos(), "the batching goroutine (and what it calls) performs no blocking channel send",
				"the goroutine Close waits for performs a blocking channel send (call chain: "+strings.Join(viaSend, " -> ")+"): if its receiver is Close itself - which is still waiting for this goroutine - neither ever returns; otherwise the goroutine is left behind after Close", func() string {
					if badSend != nil {
						return c.describe(badSend)
					}
					return ""
				}())
		}
		c.floor("O3 consumer-never-produces", len(consumers), 1)
	}
	// the reporter's wiring is fixed at construction: handles and late callers (Allocate*, Report* after
	// Close) keep using it, so Close must not tear it down
	{
		// every field of the reporter that is not an atomic / sync type is assigned at construction only:
		// a plain field written by a method (a reporter-wide scratch buffer, a lazily built table) is a
		// data race between concurrent Allocate / Report calls
		var fixed []string
		if nt := c.named(pk, "reporter"); nt != nil {
			if st, ok := nt.Underlying().(*types.Struct); ok {
				for i := 0; i < st.NumFields(); i++ {
					f := st.Field(i)
					tn := types.TypeString(f.Type(), nil)
					if strings.Contains(tn, "atomic.") || strings.HasPrefix(tn, "sync.") {
						continue
					}
					fixed = append(fixed, f.Name())
				}
			}
		}
		c.checkSetOnlyAtConstruction("O4 fixed-after-construction", pk, "reporter", fixed...)
		c.floor("O4 fixed-after-construction", len(fixed), 12)
	}

	// ---- O4 re-entrant handles ------------------------------------------------------------------
	c.checkReentrantHandles("O4 reentrant-handles", []string{"m3", "prometheus", "multi"})
	// ... and no slice shared between calls (the cached tag slice) is appended to in place - a data race between concurrent Allocate calls with equal tags (shared with C12 O7 / C13 O8)
	c.checkSharedTagSlices("O4 shared-tags")

	eng := c.newLockEngine()
	c.checkFieldDiscipline("O4 field-discipline", []string{"m3", "internal/cache"}, eng, 12)
	c.checkLockPairing("O4 lock-pairing", []string{"m3", "internal/cache", "m3/thriftudp"}, eng, 4)
	// "completes without deadlock": no lock of a class is taken while one of the same class is held (a
	// read lock re-acquired under a read lock deadlocks as soon as a writer queues in between), and the
	// lock classes are acquired in one order (shared with C09 O3)
	c.checkLockOrder("O4 lock-order", []string{"m3", "internal/cache", "m3/thriftudp"}, eng)
	c.checkNoSendUnderLock("O4 no-send-under-lock", []string{"m3", "internal/cache", "m3/thriftudp"}, eng)

	// ---- O5 index guards ----------------------------------------------------------------------------
	c.checkM3SearchGuards("O5 index-guard")
}

func (c *Ctx) checkM3Goroutines(rule string, fWg, fMetCh, fDoneCh *types.Var) {
	ctor := c.fn("m3", "", "NewReporter")
	if ctor == nil {
		c.missing(rule, "m3.NewReporter")
		return
	}
	key := c.fnKey(ctor)
	c.sawFunc(key)
	isWg := func(m string) Pred {
		return func(in ssa.Instruction) bool {
			call := asCall(in)
			if call == nil {
				return false
			}
			pkg, typ, mm := recvNamed(call)
			if pkg != "sync" || typ != "WaitGroup" || mm != m {
				return false
			}
			f, _ := addrField(call.Common().Args[0])
			return f == fWg
		}
	}
	gos := findInstrs(ctor, func(in ssa.Instruction) bool { _, ok := in.(*ssa.Go); return ok })
	adds := findInstrs(ctor, isWg("Add"))
	c.floor(rule, len(gos), 2)
	okAll := true
	// goroutines are started in the constructor only (where Close's WaitGroup accounts for them): a
	// goroutine started per call anywhere else in the reporter or its transports (a helper that enqueues
	// "later", a concurrent fan-out that returns on the first answer) is not waited for by Close and can
	// outlive it, or send on the closed queue
	for _, pk := range []string{"m3", "m3/thriftudp", "m3/customtransports", "internal/cache"} {
		for _, f := range c.funcsOfPkg(pk) {
			if f == ctor || f.Parent() == ctor {
				continue
			}
			for _, g := range findInstrs(f, func(in ssa.Instruction) bool { _, ok := in.(*ssa.Go); return ok }) {
				okAll = false
				c.bad(rule, c.fnKey(f)+":go", g.Pos(), "a goroutine is started outside the reporter's constructor: Close's WaitGroup does not account for it - it can be left running (or blocked for ever) after Close has returned", c.describe(g))
			}
		}
	}
	if len(adds) != len(gos) {
		okAll = false
		c.bad(rule, key, ctor.Pos(), fmt.Sprintf("the constructor starts %d goroutines but calls wg.Add %d times", len(gos), len(adds)))
	}
	for i, g := range gos {
		// an Add(1) dominating this go that is not consumed by an earlier go
		var add ssa.Instruction
		for _, a := range adds {
			if dominates(a, g) {
				add = a
			}
		}
		nBefore := 0
		for _, a := range adds {
			if dominates(a, g) {
				nBefore++
			}
		}
		if add == nil || nBefore < i+1 {
			okAll = false
			c.bad(rule, key, g.Pos(), "a goroutine is started without a preceding wg.Add(1): Close's wg.Wait does not wait for it", c.describe(g))
			continue
		}
		if k, isK := constInt(add.(ssa.CallInstruction).Common().Args[1]); !isK || k != 1 {
			okAll = false
			c.bad(rule, key, add.Pos(), "wg.Add is not Add(1)", c.describe(add))
		}
		body := staticCallee(g.(*ssa.Go))
		if body == nil {
			okAll = false
			c.undecided(rule, key, g.Pos(), "goroutine body is not statically known")
			continue
		}
		c.sawFunc(c.fnKey(body))
		// body defers wg.Done()
		hasDone := false
		instrsOf(body, func(in ssa.Instruction) {
			if d, isD := in.(*ssa.Defer); isD && isWg("Done")(d) && d.Block() == body.Blocks[0] {
				hasDone = true
			}
		})
		if !hasDone {
			okAll = false
			c.bad(rule, c.fnKey(body), body.Pos(), "the goroutine does not `defer wg.Done()` at its start: Close's wg.Wait never returns (or returns early)")
		}
	}
	// process: leaves only when the queue is closed
	if proc := c.fn("m3", "reporter", "process"); proc != nil {
		c.sawFunc(c.fnKey(proc))
		okP := false
		var rng ssa.Instruction
		for _, co := range chanOpsOf(proc) {
			if co.Field == fMetCh && (co.Kind == "recv" || co.Kind == "range") {
				rng = co.Instr
			}
		}
		if rng != nil {
			okP = true
			// every return is reached only through the "channel closed" outcome of the receive
			u, isU := rng.(*ssa.UnOp)
			if !isU || !u.CommaOk {
				okP = false
			} else {
				var okV ssa.Value
				for _, r := range *u.Referrers() {
					if e, isE := r.(*ssa.Extract); isE && e.Index == 1 {
						okV = e
					}
				}
				for _, r := range returnsOf(proc) {
					if r.Block() == proc.Recover {
						continue
					}
					if okV == nil || guardedByEdge(r, func(cond ssa.Value) (bool, bool) { m, t := boolValueCond(okV)(cond); return m, !t }) == nil {
						okP = false
					}
				}
			}
		}
		if !c.check(okP, rule, c.fnKey(proc), proc.Pos(), "the batching goroutine returns only when the queue has been closed and drained",
			"the batching goroutine can return while the queue is still open (senders block forever) or does not receive from the queue") {
			okAll = false
		}
	} else {
		c.missing(rule, "m3.reporter.process")
	}
	if tl := c.fn("m3", "reporter", "timeLoop"); tl != nil {
		c.sawFunc(c.fnKey(tl))
		okT := false
		for _, co := range chanOpsOf(tl) {
			if co.Field == fDoneCh && (co.Kind == "select-recv" || co.Kind == "recv") {
				okT = true
			}
		}
		if !c.check(okT, rule, c.fnKey(tl), tl.Pos(), "the clock goroutine waits on the done channel", "the clock goroutine does not watch the done channel: it never ends after Close (leak, and Close's wg.Wait hangs)") {
			okAll = false
		}
	} else {
		c.missing(rule, "m3.reporter.timeLoop")
	}
	if okAll {
		c.ok(rule, key, ctor.Pos(), fmt.Sprintf("%d goroutines: wg.Add(1) before each go, defer wg.Done() in each body", len(gos)))
	}
}

// checkReentrantHandles (A18): methods/closures implementing the cached handle interfaces store
// only into their own locals.
func (c *Ctx) checkReentrantHandles(rule string, pkgs []string) {
	var ifaces []*types.Interface
	for _, n := range []string{"CachedCount", "CachedGauge", "CachedTimer", "CachedHistogramBucket", "CachedHistogram"} {
		if it := c.iface("", n); it != nil {
			ifaces = append(ifaces, it)
		}
	}
	if len(ifaces) != 5 {
		c.missing(rule, "cached handle interfaces of package tally")
		return
	}
	implements := func(t types.Type) bool {
		for _, it := range ifaces {
			if types.Implements(t, it) || types.Implements(types.NewPointer(t), it) {
				return true
			}
		}
		return false
	}
	methodNames := map[string]bool{"ReportCount": true, "ReportGauge": true, "ReportTimer": true, "ReportSamples": true, "ValueBucket": true, "DurationBucket": true}
	n := 0
	for _, pk := range pkgs {
		for _, fn := range c.funcsOfPkg(pk) {
			isHandle := false
			if fn.Signature.Recv() != nil && methodNames[fn.Name()] && implements(fn.Signature.Recv().Type()) {
				isHandle = true
			}
			// closures converted to a func type that implements a handle interface
			if fn.Parent() != nil {
				instrsOf(fn.Parent(), func(in ssa.Instruction) {
					mc, ok := in.(*ssa.MakeClosure)
					if !ok || mc.Fn != ssa.Value(fn) || mc.Referrers() == nil {
						return
					}
					for _, r := range *mc.Referrers() {
						if ct, isCT := r.(*ssa.ChangeType); isCT && implements(ct.Type()) {
							isHandle = true
						}
						if mi, isMI := r.(*ssa.MakeInterface); isMI && implements(mi.X.Type()) {
							isHandle = true
						}
					}
				})
			}
			if !isHandle {
				continue
			}
			n++
			key := c.fnKey(fn)
			c.sawFunc(key)
			okAll := true
			instrsOf(fn, func(in ssa.Instruction) {
				var addr ssa.Value
				switch x := in.(type) {
				case *ssa.Store:
					addr = x.Addr
				case *ssa.MapUpdate:
					addr = x.Map
				default:
					return
				}
				root := rootOfAddr(addr)
				switch r := root.(type) {
				case *ssa.Alloc:
					if r.Parent() == fn {
						return // own local (incl. the spilled value receiver / parameter copy)
					}
				}
				okAll = false
				c.bad(rule, key, in.Pos(), "a cached metric handle stores into state shared between calls (a captured variable or the receiver's storage): two goroutines reporting through the same handle race and can enqueue each other's value", c.describe(in), "root: "+fmt.Sprint(root))
			})
			if okAll {
				c.ok(rule, key, fn.Pos(), "stores only into its own locals")
			}
		}
	}
	c.floor(rule, n, 4)
}

// rootOfAddr walks an address back to its root without looking through loads of pointers held in
// locals (a load of a captured cell yields shared storage).
func rootOfAddr(v ssa.Value) ssa.Value {
	for {
		switch x := v.(type) {
		case *ssa.FieldAddr:
			v = x.X
		case *ssa.IndexAddr:
			v = x.X
		case *ssa.UnOp:
			if x.Op == token.MUL {
				// loading a pointer and writing through it: the root is what the pointer came from
				if al, ok := x.X.(*ssa.Alloc); ok {
					if s := spilled(al); s != nil {
						return s
					}
				}
				return x.X
			}
			return v
		default:
			return v
		}
	}
}

func (c *Ctx) checkM3SearchGuards(rule string) {
	sites := c.searchSites(c.funcsOfPkg("m3"))
	c.floor(rule, len(sites), 2)
	for i, s := range sites {
		key := fmt.Sprintf("%s#%d", c.fnKey(s.fn), i)
		c.sawFunc(c.fnKey(s.fn))
		res := ssa.Value(s.call)
		okAll := true
		// every IndexAddr using the result must be dominated by an in-range outcome:
		// res < n / res != n / res == n -> leave, where n is the search length (or len of the same slice)
		nV := canon(s.n)
		inRange := func(cond ssa.Value) (bool, bool) {
			op, x, y, ok := cmpOf(cond)
			if !ok {
				return false, false
			}
			if canon(y) == res {
				x, y = y, x
				op = flipCmp(op)
			}
			if canon(x) != res {
				return false, false
			}
			same := canon(y) == nV
			if !same {
				if ln, isLn := canon(y).(*ssa.Call); isLn && isBuiltin(ln, "len") {
					if ln2, isLn2 := nV.(*ssa.Call); isLn2 && isBuiltin(ln2, "len") && accessPath(ln.Call.Args[0]) == accessPath(ln2.Call.Args[0]) {
						same = true
					}
				}
			}
			if !same {
				return false, false
			}
			switch op {
			case token.LSS, token.NEQ:
				return true, true
			case token.GEQ, token.EQL:
				return true, false
			}
			return false, false
		}
		uses := 0
		var visit func(v ssa.Value)
		seen := map[ssa.Value]bool{}
		visit = func(v ssa.Value) {
			if seen[v] || v.Referrers() == nil {
				return
			}
			seen[v] = true
			for _, r := range *v.Referrers() {
				switch x := r.(type) {
				case *ssa.IndexAddr:
					if x.Index == v {
						uses++
						if guardedByEdge(x, inRange) == nil {
							okAll = false
							c.bad(rule, key, x.Pos(), "a sort.Search result is used as an index without excluding 'not found' (result == length): index out of range panic", c.describe(x))
						}
					}
				case *ssa.Index:
					if x.Index == v {
						uses++
						if guardedByEdge(x, inRange) == nil {
							okAll = false
							c.bad(rule, key, x.Pos(), "a sort.Search result is used as an index without excluding 'not found'", c.describe(x))
						}
					}
				case *ssa.Store:
					// spilled into a local cell: follow loads of the cell
					if al, isAl := x.Addr.(*ssa.Alloc); isAl && x.Val == v && al.Referrers() != nil {
						for _, lr := range *al.Referrers() {
							if ld, isLd := lr.(*ssa.UnOp); isLd && ld.Op == token.MUL {
								visit(ld)
							}
						}
					}
				case *ssa.Phi:
					visit(x)
				}
			}
		}
		visit(res)
		if okAll {
			c.ok(rule, key, s.call.Pos(), fmt.Sprintf("search result range-checked before each of its %d index use(s)", uses))
		}
	}
}

// checkNoSendUnderLock: in the reporter's packages no mutex is held across a blocking channel
// operation - a send (outside a select with a default), or a call of a function of these packages
// that can reach one through static calls. The queue's only consumer takes the reporter's locks too
// (it sizes and counts what it batches): a producer that blocks on the full queue while holding one
// of them stops the consumer at its next use of that lock, the queue never drains, and every later
// report, Flush and Close hangs.
func (c *Ctx) checkNoSendUnderLock(rule string, pkgs []string, eng *lockEngine) {
	inPkgs := map[string]bool{}
	for _, pk := range pkgs {
		inPkgs[pkgPath(pk)] = true
	}
	var fns []*ssa.Function
	for _, fn := range c.AllFuncs {
		if inPkgs[fn.Package().Pkg.Path()] {
			fns = append(fns, fn)
		}
	}
	direct := func(in ssa.Instruction) bool {
		switch x := in.(type) {
		case *ssa.Send:
			return true
		case *ssa.Select:
			if x.Blocking {
				for _, st := range x.States {
					if st.Dir == types.SendOnly {
						return true
					}
				}
			}
		}
		return false
	}
	// callees of a call: the static one, a literal invoked in place, or - for an interface call - every
	// method of these packages with that name whose receiver implements the interface (the reporter's
	// own cached handles are used through tally's interfaces)
	calleesOf := func(ci ssa.CallInstruction) []*ssa.Function {
		com := ci.Common()
		if com.IsInvoke() {
			it, _ := com.Value.Type().Underlying().(*types.Interface)
			var out []*ssa.Function
			for _, g := range fns {
				if g.Signature.Recv() == nil || g.Name() != com.Method.Name() || g.Parent() != nil {
					continue
				}
				if it != nil && (types.Implements(g.Signature.Recv().Type(), it) || types.Implements(types.NewPointer(g.Signature.Recv().Type()), it)) {
					out = append(out, g)
				}
			}
			return out
		}
		if g := staticCallee(ci); g != nil {
			return []*ssa.Function{g}
		}
		if lit := inlineLiteralOf(ci); lit != nil {
			return []*ssa.Function{lit}
		}
		return nil
	}
	// functions that can block on a send (fixpoint over these calls)
	blocks := map[*ssa.Function]ssa.Instruction{}
	for _, fn := range fns {
		instrsOf(fn, func(in ssa.Instruction) {
			if blocks[fn] == nil && direct(in) {
				blocks[fn] = in
			}
		})
	}
	for changed := true; changed; {
		changed = false
		for _, fn := range fns {
			if blocks[fn] != nil {
				continue
			}
			instrsOf(fn, func(in ssa.Instruction) {
				if blocks[fn] != nil {
					return
				}
				ci, ok := in.(ssa.CallInstruction)
				if !ok {
					return
				}
				if _, isGo := in.(*ssa.Go); isGo {
					return
				}
				for _, g := range calleesOf(ci) {
					if blocks[g] != nil && blocks[fn] == nil {
						blocks[fn] = in
						changed = true
					}
				}
			})
		}
	}
	nSites, nBad := 0, 0
	for _, fn := range fns {
		hasLock := false
		instrsOf(fn, func(in ssa.Instruction) {
			if lockOpOf(in) != nil {
				hasLock = true
			}
		})
		if !hasLock && len(eng.analyze(fn).requires) == 0 {
			continue
		}
		instrsOf(fn, func(in ssa.Instruction) {
			blocking := direct(in)
			via := ""
			if ci, ok := in.(ssa.CallInstruction); ok && !blocking {
				if _, isGo := in.(*ssa.Go); !isGo {
					if _, isDefer := in.(*ssa.Defer); !isDefer {
						for _, g := range calleesOf(ci) {
							if blocks[g] != nil {
								blocking = true
								via = " (through " + g.Name() + ")"
							}
						}
					}
				}
			}
			if !blocking {
				return
			}
			nSites++
			held := eng.heldAt(in)
			if len(held) > 0 {
				nBad++
				c.bad(rule, c.fnKey(fn), in.Pos(), fmt.Sprintf("a blocking channel send%s is made while %s is held: when the queue is full the sender waits for the consumer, and the consumer - which takes the same lock at its next batch boundary - waits for the sender; reports, Flush and Close then hang for good", via, held), c.describe(in))
			}
		})
	}
	if nBad == 0 {
		c.ok(rule, strings.Join(pkgs, ","), token.NoPos, fmt.Sprintf("%d function(s) of these packages can block on a channel send; none of the %d such operations inside lock-using functions happens with a mutex held", len(blocks), nSites))
	}
	c.floor(rule, len(blocks), 2)
}
