package main

import (
	"fmt"
	"go/token"
	"go/types"

	"golang.org/x/tools/go/ssa"
)

func init() { register("C08", checkC08) }

func checkC08(c *Ctx) {
	c.Explanation = "Decides the structure of the root shutdown barrier: (O1) on the root branch of Close the order is: successful CAS on closed -> close(done) -> wg.Wait() -> final registry report (reportRegistry: registry pass, then Flush, for whichever reporter is configured) -> purge -> reporter Close, whose error is the return value; a failed CAS returns nil and reaches none of these; (O2) the WaitGroup that tracks the reporting goroutine is added to before the goroutine starts, the goroutine defers Done, and Close waits on it after closing done and before the final report (so no periodic pass overlaps or follows the final one); (O3) the purge of all scopes is called only from Close, after the final report; (O4) the ticker loop watches the done channel and returns, and a tick does nothing once closed is set."
	c.NotDecided = []string{"liveness and timing", "what a user-supplied reporter does inside Flush/Close"}
	c.Assumptions = append(c.Assumptions, "a reporter's Flush/Close returns")

	closeFn := c.fn("", "scope", "Close")
	fClosed, fDone, fWg, fRootFlag, fBase := c.field("", "scope", "closed"), c.field("", "scope", "done"), c.field("", "scope", "wg"), c.field("", "scope", "root"), c.field("", "scope", "baseReporter")
	rr := c.fn("", "scope", "reportRegistry")
	purge := c.fn("", "scopeRegistry", "purgeIfRootClosed")
	if closeFn == nil || fClosed == nil || fDone == nil || fWg == nil || fRootFlag == nil || fBase == nil || rr == nil || purge == nil {
		c.missing("O1 close-chain", "tally.scope.Close / reportRegistry / purgeIfRootClosed / fields closed, done, wg, root, baseReporter")
		return
	}
	isWg := func(m string) Pred {
		return func(in ssa.Instruction) bool {
			call := asCall(in)
			if call == nil {
				return false
			}
			pkg, typ, mm := recvNamed(call)
			if pkg != "sync" || typ != "WaitGroup" || mm != m {
				return false
			}
			f, _ := addrField(call.Common().Args[0])
			return f == fWg
		}
	}
	// ---- O1 ---------------------------------------------------------------------------------
	{
		fn := closeFn
		key := c.fnKey(fn)
		c.sawFunc(key)
		var cas ssa.Value
		var casI, closeDone, wait, report, purgeCall, closerClose ssa.Instruction
		instrsOf(fn, func(in ssa.Instruction) {
			if op := atomicOpOf(in); op != nil && op.Field == fClosed && op.Kind == "cas" {
				cas, _ = in.(ssa.Value)
				casI = in
			}
			if call, ok := in.(*ssa.Call); ok {
				if isBuiltin(call, "close") {
					if f, _ := loadedField(call.Call.Args[0]); f == fDone {
						closeDone = in
					}
				}
				if isWg("Wait")(in) {
					wait = in
				}
				if staticCallee(call) == rr {
					report = in
				}
				if staticCallee(call) == purge {
					purgeCall = in
				}
				if _, m := ifaceCall(call); m != nil && m.Name() == "Close" {
					// io.Closer obtained from baseReporter
					if ex, isEx := canon(call.Call.Value).(*ssa.Extract); isEx {
						if ta, isTA := ex.Tuple.(*ssa.TypeAssert); isTA {
							if f, _ := loadedField(ta.X); f == fBase {
								closerClose = in
							}
						}
					}
				}
			}
		})
		type step struct {
			name string
			in   ssa.Instruction
		}
		steps := []step{{"CAS on closed", casI}, {"close(done)", closeDone}, {"wg.Wait()", wait}, {"final registry report", report}, {"reporter Close()", closerClose}}
		okAll := true
		for _, s := range steps {
			if s.in == nil {
				okAll = false
				c.bad("O1 close-chain", key+":"+s.name, fn.Pos(), "Close lacks the step '"+s.name+"' of the shutdown sequence")
			}
		}
		if okAll {
			for i := 1; i < len(steps); i++ {
				if !dominates(steps[i-1].in, steps[i].in) {
					okAll = false
					c.bad("O1 close-chain", key+":order", steps[i].in.Pos(), fmt.Sprintf("'%s' is not preceded by '%s' on every path: the shutdown sequence is CAS -> close(done) -> wg.Wait -> final report+flush -> reporter Close", steps[i].name, steps[i-1].name),
						c.describe(steps[i-1].in), c.describe(steps[i].in))
				}
			}
			casTrue := boolValueCond(cas)
			rootTrue := func(cond ssa.Value) (bool, bool) {
				neg := false
				for {
					if u, ok := cond.(*ssa.UnOp); ok && u.Op == token.NOT {
						neg = !neg
						cond = u.X
						continue
					}
					break
				}
				f, _ := loadedField(cond)
				return f == fRootFlag, !neg
			}
			for _, s := range steps[1:] {
				if guardedByEdge(s.in, casTrue) == nil {
					okAll = false
					c.bad("O1 close-chain", key+":once", s.in.Pos(), "'"+s.name+"' can run on a path where the compare-and-swap on closed failed: a second Close delivers, flushes or closes again", c.describe(s.in))
				}
			}
			for _, s := range steps[2:] {
				if guardedByEdge(s.in, rootTrue) == nil {
					okAll = false
					c.bad("O1 close-chain", key+":root", s.in.Pos(), "'"+s.name+"' is not restricted to the root scope", c.describe(s.in))
				}
			}
			// on the root branch every path from the CAS success reaches the final report
			if esc := reachAvoidingCorr(report, false, nil, isReturn, nil); esc == nil {
				okAll = false
			}
			// the closer's error is what Close returns on that path; failed CAS returns nil
			for _, r := range returnsOf(fn) {
				for _, va := range resultValues(r, 0) {
					if dominates(closerClose, va.At) {
						if canon(va.Val) != closerClose.(ssa.Value) {
							okAll = false
							c.bad("O1 close-chain", key+":error", va.At.Pos(), "Close does not return the error of the reporter's Close()", c.describe(va.At))
						}
					}
					if guardedByEdge(va.At, func(cond ssa.Value) (bool, bool) { m, t := casTrue(cond); return m, !t }) != nil && !isNilConst(va.Val) {
						okAll = false
						c.bad("O1 close-chain", key+":idempotent", va.At.Pos(), "a repeated Close does not return nil", c.describe(va.At))
					}
				}
			}
			returned := false
			for _, r := range returnsOf(fn) {
				for _, va := range resultValues(r, 0) {
					if canon(va.Val) == closerClose.(ssa.Value) {
						returned = true
					}
				}
			}
			if !returned {
				okAll = false
				c.bad("O1 close-chain", key+":error", closerClose.Pos(), "the error of the reporter's Close() is dropped instead of being returned by Close", c.describe(closerClose))
			}
			// purge, if called here, comes after the final report
			if purgeCall != nil && !dominates(report, purgeCall) {
				okAll = false
				c.bad("O1 close-chain", key+":purge", purgeCall.Pos(), "the scopes are purged before the final report has visited them", c.describe(purgeCall))
			}
			if purgeCall != nil && closerClose != nil && !dominates(purgeCall, closerClose) && !dominates(closerClose, purgeCall) {
				// independent branches are fine
				_ = purgeCall
			}
		}
		if okAll {
			c.ok("O1 close-chain", key, casI.Pos(), "CAS success -> close(done) -> wg.Wait -> final report (+flush) -> [purge] -> reporter Close (its error returned); failed CAS returns nil")
		}
	}
	// reportRegistry: pass then Flush, per reporter flavour
	{
		key := c.fnKey(rr)
		c.sawFunc(key)
		type arm struct {
			pass  string
			iface string
			fld   string
		}
		okAll := true
		nArms := 0
		for _, a := range []arm{{"Report", "StatsReporter", "reporter"}, {"CachedReport", "CachedStatsReporter", "cachedReporter"}} {
			passFn := c.fn("", "scopeRegistry", a.pass)
			fFld := c.field("", "scope", a.fld)
			var passCall, flush ssa.Instruction
			instrsOf(rr, func(in ssa.Instruction) {
				call, ok := in.(*ssa.Call)
				if !ok {
					return
				}
				if passFn != nil && staticCallee(call) == passFn {
					passCall = in
				}
				if r, m := ifaceCall(call); m != nil && m.Name() == "Flush" {
					if f, _ := loadedField(r); f == fFld {
						flush = in
					}
				}
			})
			if passCall == nil || flush == nil || !dominates(passCall, flush) {
				okAll = false
				c.bad("O1 report-then-flush", key+":"+a.fld, rr.Pos(), "for a "+a.iface+" the registry pass ("+a.pass+") is not followed by that reporter's Flush: the final values are delivered but never flushed before Close returns")
				continue
			}
			// flush is reached whenever the pass ran
			if esc := reachAvoiding(passCall, false, isReturn, func(i ssa.Instruction) bool { return i == flush }); esc != nil {
				okAll = false
				c.bad("O1 report-then-flush", key+":"+a.fld, esc.Pos(), "a path runs the registry pass and returns without flushing the reporter")
				continue
			}
			if guardedByEdge(passCall, fieldNonNilCond(fFld)) == nil {
				okAll = false
				c.bad("O1 report-then-flush", key+":"+a.fld, passCall.Pos(), "the "+a.pass+" pass is not selected by `"+a.fld+" != nil`")
				continue
			}
			nArms++
		}
		// a requested pass is always made: with a reporter configured no path returns without the pass
		// (a pass that is skipped because "another one is running" drops the final report of Close)
		if okAll && nArms == 2 {
			fR, fC := c.field("", "scope", "reporter"), c.field("", "scope", "cachedReporter")
			passes := map[*ssa.Function]bool{c.fn("", "scopeRegistry", "Report"): true, c.fn("", "scopeRegistry", "CachedReport"): true}
			isPass := func(in ssa.Instruction) bool {
				call, ok := in.(*ssa.Call)
				return ok && passes[staticCallee(call)]
			}
			// skip the "not configured" outcomes of the reporter tests: what remains must pass a pass
			skip := map[*ssa.BasicBlock]int{}
			for _, b := range rr.Blocks {
				if iff, isIf := condOf(b); isIf {
					for _, f := range []*types.Var{fR, fC} {
						if m, nn := fieldNonNilCond(f)(iff.Cond); m && f == fC {
							// leaving through "cachedReporter == nil" after "reporter == nil": nothing to report
							skip[b] = b2i(nn)
						}
					}
				}
			}
			if e := entryInstr(rr); e != nil {
				if esc := reachAvoidingF(e, true, skip, isReturn, isPass); esc != nil {
					okAll = false
					c.bad("O1 report-then-flush", key+":always", esc.Pos(), "reportRegistry can return without making the registry pass although a reporter is configured (e.g. because another pass is in flight): a pass requested by Close is dropped and what was recorded since the last pass is never delivered", c.describe(esc))
				}
			}
		}
		if okAll && nArms == 2 {
			c.ok("O1 report-then-flush", key, rr.Pos(), "registry pass then Flush, for the plain and for the cached reporter; no path skips the pass")
		}
	}

	// scopes obtained after Close are inert: Tagged/SubScope go through the registry, which tests the
	// closed flags (shared with C07 O4)
	c.checkDerivationThroughRegistry("O5 through-registry")
	// a Close that lands while a periodic pass is inside the root's report must not make that pass drop
	// the root: the flag deciding the removal is sampled before the scope is reported (shared with C01 O9)
	c.checkReportBeforeClear("O1 flag-before-report", "O1 report-before-clear")
	c.checkInertAndClose("O5 inert-and-close", fClosed)
	// handles obtained before Close stay harmless: the storage a metric handle indexes is assigned at
	// construction only (never released or replaced by clearMetrics / Close)
	c.checkSetOnlyAtConstruction("O5 handles-stay-valid", "", "histogram", "samples", "buckets", "specification", "htype")
	c.checkSetOnlyAtConstruction("O5 handles-stay-valid", "", "sampleCounter", "counter", "cachedBucket")
	c.checkSetOnlyAtConstruction("O5 handles-stay-valid", "", "counter", "cachedCount")
	c.checkSetOnlyAtConstruction("O5 handles-stay-valid", "", "gauge", "cachedGauge")
	c.checkSetOnlyAtConstruction("O5 handles-stay-valid", "", "timer", "cachedTimer", "name", "tags")

	// ---- O2 WaitGroup ------------------------------------------------------------------------------
	nAdd := 0
	for _, fn := range c.funcsOfPkg("") {
		for _, a := range findInstrs(fn, isWg("Add")) {
			nAdd++
			key := c.fnKey(fn)
			c.sawFunc(key)
			// followed by a go statement whose body defers wg.Done
			var goI *ssa.Go
			instrsOf(fn, func(in ssa.Instruction) {
				if g, ok := in.(*ssa.Go); ok && dominates(a, g) && goI == nil {
					goI = g
				}
			})
			ok := goI != nil
			why := "wg.Add is not followed by starting the goroutine it accounts for"
			if ok {
				body := staticCallee(goI)
				hasDone := false
				if body != nil {
					instrsOf(body, func(in ssa.Instruction) {
						if d, isD := in.(*ssa.Defer); isD && isWg("Done")(d) && d.Block() == body.Blocks[0] {
							hasDone = true
						}
					})
				}
				if !hasDone {
					ok = false
					why = "the reporting goroutine does not `defer wg.Done()`: Close's wg.Wait never returns"
				}
				if k, isK := constInt(a.(ssa.CallInstruction).Common().Args[1]); !isK || k != 1 {
					ok = false
					why = "wg.Add is not Add(1)"
				}
			}
			c.check(ok, "O2 waitgroup", key+":add", a.Pos(), "wg.Add(1) before the reporting goroutine, which defers wg.Done()", why)
		}
	}
	c.floor("O2 waitgroup", nAdd, 1)
	waits := 0
	for _, fn := range c.funcsOfPkg("") {
		waits += len(findInstrs(fn, isWg("Wait")))
	}
	c.check(waits >= 1, "O2 waitgroup", "scope.wg:wait", fWg.Pos(), "the WaitGroup is waited on (in Close; ordering checked by O1)",
		"the WaitGroup tracking the reporting goroutine is added to but never waited on: Close returns while a periodic pass is still running (it reports and flushes after Close returned, and overlaps the final pass)")

	// ---- O3 purge only from Close after the final report -----------------------------------------------
	c.checkPurgeOnlyFromClose("O3 purge-only-from-close")

	// ---- O4 ticker loop -----------------------------------------------------------------------------------
	if loop := c.fn("", "scope", "reportLoop"); loop != nil {
		key := c.fnKey(loop)
		c.sawFunc(key)
		ok := false
		for _, co := range chanOpsOf(loop) {
			if co.Field == fDone && (co.Kind == "select-recv" || co.Kind == "recv") {
				// the done case leads to a return
				if sel, isSel := co.Instr.(*ssa.Select); isSel {
					idx := -1
					for i, st := range sel.States {
						if f, _ := loadedField(st.Chan); f == fDone {
							idx = i
						}
					}
					// find `extract #0 == idx` true edge leading to return without another select
					for _, b := range loop.Blocks {
						iff, isIf := condOf(b)
						if !isIf {
							continue
						}
						op, x, y, isCmp := cmpOf(iff.Cond)
						if !isCmp || op != token.EQL {
							continue
						}
						ex, isEx := x.(*ssa.Extract)
						k, isK := constInt(y)
						if isEx && ex.Tuple == ssa.Value(sel) && ex.Index == 0 && isK && int(k) == idx {
							if r := reachAvoiding(b.Succs[0].Instrs[0], true, isReturn, func(i ssa.Instruction) bool { _, s := i.(*ssa.Select); return s }); r != nil {
								ok = true
							}
						}
					}
				}
			}
		}
		c.check(ok, "O4 ticker-loop", key, loop.Pos(), "the ticker loop selects on the done channel and returns", "the ticker loop does not return when the done channel is closed: the reporting goroutine keeps ticking after Close (and wg.Wait hangs)")
	} else {
		c.missing("O4 ticker-loop", "tally.scope.reportLoop")
	}
	if run := c.fn("", "scope", "reportLoopRun"); run != nil {
		key := c.fnKey(run)
		c.sawFunc(key)
		ok := false
		instrsOf(run, func(in ssa.Instruction) {
			if call, isCall := in.(*ssa.Call); isCall && staticCallee(call) == rr {
				instrsOf(run, func(l ssa.Instruction) {
					if op := atomicOpOf(l); op != nil && op.Field == fClosed && op.Kind == "load" {
						if lv, isV := l.(ssa.Value); isV && guardedByEdge(in, func(cond ssa.Value) (bool, bool) { m, t := boolValueCond(lv)(cond); return m, !t }) != nil {
							ok = true
						}
					}
				})
			}
		})
		c.check(ok, "O4 ticker-loop", key, run.Pos(), "a tick reports only while closed is not set", "a tick reports without testing the closed flag first")
	} else {
		c.missing("O4 ticker-loop", "tally.scope.reportLoopRun")
	}
	_ = types.Typ
}

// checkPurgeOnlyFromClose (C08 O3; also armed by C01): the purge of all scopes is called only from
// scope.Close, not deferred, and never escapes as a function value.
func (c *Ctx) checkPurgeOnlyFromClose(rule string) {
	closeFn := c.fn("", "scope", "Close")
	purge := c.fn("", "scopeRegistry", "purgeIfRootClosed")
	rr := c.fn("", "scope", "reportRegistry")
	if closeFn == nil || purge == nil || rr == nil {
		c.missing(rule, "tally.scope.Close / scopeRegistry.purgeIfRootClosed / scope.reportRegistry")
		return
	}
	// ---- O3 purge only from Close after the final report -----------------------------------------------
	sites := c.staticCallSites()
	nP := 0
	okP := true
	for _, cs := range sites[purge] {
		nP++
		caller := cs.Parent()
		in := cs.(ssa.Instruction)
		if caller != closeFn {
			okP = false
			c.bad(rule, c.fnKey(caller), in.Pos(), "the purge of all scopes is reachable from "+caller.Name()+": a periodic pass that ends after the closed flag was set unregisters and clears every scope before Close's final report has visited them (their data is lost)", c.describe(in))
			continue
		}
		if _, isDefer := in.(*ssa.Defer); isDefer {
			okP = false
			c.bad(rule, c.fnKey(caller), in.Pos(), "the purge is deferred", c.describe(in))
		}
	}
	// also through closures / method values
	for _, fn := range c.AllFuncs {
		instrsOf(fn, func(in ssa.Instruction) {
			for _, op := range in.Operands(nil) {
				if op != nil && *op == ssa.Value(purge) {
					if ci, isCall := in.(ssa.CallInstruction); !isCall || staticCallee(ci) != purge {
						okP = false
						c.bad(rule, c.fnKey(fn), in.Pos(), "the purge function escapes as a value", c.describe(in))
					}
				}
			}
		})
	}
	if dyn := c.dynamicCallers(purge); len(dyn) > 0 {
		okP = false
		c.bad(rule, c.fnKey(purge)+":closed-world", dyn[0].Pos(), "the purge function can be reached through an interface or function value (VTA call graph): its callers cannot be enumerated", c.describe(dyn[0].(ssa.Instruction)))
	}
	if okP {
		c.ok(rule, c.fnKey(purge), purge.Pos(), fmt.Sprintf("the purge is called from %d site(s), all in Close after the final report", nP))
	}
	c.floor(rule, nP, 1)

}
