package main

import (
	"bytes"
	"fmt"
	"go/ast"
	"go/parser"
	"go/token"
	"sort"
	"strings"
)

// De-literalisation. When a helper cannot be reduced to an expression or a statement list (several
// return statements, loops), the x/tools inliner falls back to an immediately-invoked function
// literal: `x := func() T { BODY }()`. go/ssa keeps that as a call of an anonymous function, which
// intraprocedural rules do not see through. The rewrite below turns such a call, where it stands in
// a statement position, into straight-line code with the same meaning:
//
//	var r T
//	L: for { BODY with every `return e` replaced by `{ r = e; break L }` }
//	x := r
//
// Restrictions (the literal is left alone otherwise): no parameters, unnamed results, no defer /
// recover / goto / labels in the body. Evaluation order is preserved: the call is hoisted only
// from positions where nothing with side effects is evaluated before it.

type textEdit struct {
	from, to int
	text     string
}

func applyEdits(src []byte, edits []textEdit) []byte {
	sort.Slice(edits, func(i, j int) bool { return edits[i].from < edits[j].from })
	var out bytes.Buffer
	pos := 0
	for _, e := range edits {
		if e.from < pos {
			continue // overlapping edit: skip (handled in a later round)
		}
		out.Write(src[pos:e.from])
		out.WriteString(e.text)
		pos = e.to
	}
	out.Write(src[pos:])
	return out.Bytes()
}

// iifeOf returns the function literal when e is `func(...) ... { ... }()` with no arguments.
func iifeOf(e ast.Expr) (*ast.CallExpr, *ast.FuncLit) {
	call, ok := ast.Unparen(e).(*ast.CallExpr)
	if !ok || len(call.Args) != 0 {
		return nil, nil
	}
	fl, ok := ast.Unparen(call.Fun).(*ast.FuncLit)
	if !ok || fl.Type.Params != nil && len(fl.Type.Params.List) > 0 {
		return nil, nil
	}
	return call, fl
}

// delitEligible checks the body restrictions.
func delitEligible(fl *ast.FuncLit) bool {
	// named results are declared as locals of the rewritten body (see deliteralize); blank names
	// cannot be read back by a bare return, keep those literals
	if fl.Type.Results != nil {
		for _, f := range fl.Type.Results.List {
			for _, n := range f.Names {
				if n.Name == "_" {
					return false
				}
			}
		}
	}
	ok := true
	ast.Inspect(fl.Body, func(n ast.Node) bool {
		switch x := n.(type) {
		case *ast.FuncLit:
			if x != fl {
				// nested literals may contain defer/return of their own, but not recover tricks we care about
				return false
			}
		case *ast.DeferStmt, *ast.LabeledStmt:
			ok = false
		case *ast.BranchStmt:
			if x.Tok == token.GOTO || x.Label != nil {
				ok = false
			}
		case *ast.CallExpr:
			if id, isId := x.Fun.(*ast.Ident); isId && id.Name == "recover" {
				ok = false
			}
		}
		return ok
	})
	return ok
}

// sideEffectFree: identifiers, selectors of identifiers, literals (syntactic).
func sideEffectFree(e ast.Expr) bool {
	switch x := ast.Unparen(e).(type) {
	case *ast.Ident, *ast.BasicLit:
		return true
	case *ast.SelectorExpr:
		return sideEffectFree(x.X)
	}
	return false
}

func rootIdent(e ast.Expr) string {
	switch x := ast.Unparen(e).(type) {
	case *ast.Ident:
		return x.Name
	case *ast.SelectorExpr:
		return rootIdent(x.X)
	}
	return ""
}

// assignsTo reports whether body assigns to (or takes the address of) one of the names.
func assignsTo(body *ast.BlockStmt, names0 map[string]bool) bool {
	// names re-declared by the leading var declarations of the body (the inliner's parameter
	// bindings, `var buf []byte = buf`) are the body's own from there on
	names := map[string]bool{}
	for k, v := range names0 {
		names[k] = v
	}
	for _, st := range body.List {
		ds, ok := st.(*ast.DeclStmt)
		if !ok {
			break
		}
		gd, ok := ds.Decl.(*ast.GenDecl)
		if !ok || gd.Tok != token.VAR {
			break
		}
		for _, sp := range gd.Specs {
			if vs, isVS := sp.(*ast.ValueSpec); isVS {
				for _, v := range vs.Values {
					// the initialisers themselves are still checked against the outer names
					hitInit := false
					ast.Inspect(v, func(n ast.Node) bool {
						if u, isU := n.(*ast.UnaryExpr); isU && u.Op == token.AND && names[rootIdent(u.X)] {
							hitInit = true
						}
						return !hitInit
					})
					if hitInit {
						return true
					}
				}
				for _, nm := range vs.Names {
					delete(names, nm.Name)
				}
			}
		}
	}
	if len(names) == 0 {
		return false
	}
	hit := false
	ast.Inspect(body, func(n ast.Node) bool {
		switch x := n.(type) {
		case *ast.AssignStmt:
			if x.Tok != token.DEFINE {
				for _, l := range x.Lhs {
					if names[rootIdent(l)] {
						hit = true
					}
				}
			}
		case *ast.IncDecStmt:
			if names[rootIdent(x.X)] {
				hit = true
			}
		case *ast.UnaryExpr:
			if x.Op == token.AND && names[rootIdent(x.X)] {
				hit = true
			}
		}
		return !hit
	})
	return hit
}

// findHoistable locates one IIFE inside statement st that may be evaluated before the statement
// without changing the order of side effects.
func findHoistable(st ast.Stmt) (*ast.CallExpr, *ast.FuncLit) {
	try := func(e ast.Expr, others []ast.Expr) (*ast.CallExpr, *ast.FuncLit) {
		if call, fl := iifeOf(e); fl != nil && delitEligible(fl) {
			names := map[string]bool{}
			for _, o := range others {
				if !sideEffectFree(o) {
					return nil, nil
				}
				if r := rootIdent(o); r != "" {
					names[r] = true
				}
			}
			if len(names) > 0 && assignsTo(fl.Body, names) {
				return nil, nil
			}
			return call, fl
		}
		// one level down: argument of a call whose function and other arguments are side-effect free
		if c, ok := ast.Unparen(e).(*ast.CallExpr); ok {
			if _, isLit := ast.Unparen(c.Fun).(*ast.FuncLit); isLit {
				return nil, nil
			}
			// `x.list[IIFE].f.m(args)`: the index of the receiver expression
			{
				f := ast.Unparen(c.Fun)
				for {
					if se, isSel := f.(*ast.SelectorExpr); isSel {
						f = ast.Unparen(se.X)
						continue
					}
					break
				}
				if ie, isIdx := f.(*ast.IndexExpr); isIdx {
					if call, fl := iifeOf(ie.Index); fl != nil && delitEligible(fl) {
						all := append([]ast.Expr{}, others...)
						all = append(all, ie.X)
						all = append(all, c.Args...)
						names := map[string]bool{}
						okAll := true
						for _, o := range all {
							if !sideEffectFree(o) {
								okAll = false
							}
							if r := rootIdent(o); r != "" {
								names[r] = true
							}
						}
						if okAll && !assignsTo(fl.Body, names) {
							return call, fl
						}
					}
				}
			}
			for i, a := range c.Args {
				call, fl := iifeOf(a)
				if fl == nil || !delitEligible(fl) {
					continue
				}
				all := append([]ast.Expr{}, others...)
				all = append(all, c.Fun)
				for j, b := range c.Args {
					if j != i {
						all = append(all, b)
					}
				}
				names := map[string]bool{}
				okAll := true
				for _, o := range all {
					if id, isId := o.(*ast.Ident); isId && (id.Name == "append" || id.Name == "len" || id.Name == "cap") {
						continue
					}
					if !sideEffectFree(o) {
						okAll = false
					}
					if r := rootIdent(o); r != "" {
						names[r] = true
					}
				}
				if okAll && !assignsTo(fl.Body, names) {
					return call, fl
				}
			}
		}
		return nil, nil
	}
	switch x := st.(type) {
	case *ast.IfStmt:
		if as, ok := x.Init.(*ast.AssignStmt); ok && len(as.Rhs) == 1 {
			if as.Tok == token.DEFINE {
				return try(as.Rhs[0], nil)
			}
			return try(as.Rhs[0], as.Lhs)
		}
		if x.Init == nil {
			// `if IIFE { ... }` (boolean helper), possibly negated
			c := ast.Unparen(x.Cond)
			if u, ok := c.(*ast.UnaryExpr); ok && u.Op == token.NOT {
				c = ast.Unparen(u.X)
			}
			return try(c, nil)
		}
	case *ast.AssignStmt:
		if len(x.Rhs) == 1 {
			if x.Tok == token.DEFINE {
				return try(x.Rhs[0], nil)
			}
			return try(x.Rhs[0], x.Lhs)
		}
	case *ast.DeclStmt:
		if gd, ok := x.Decl.(*ast.GenDecl); ok && gd.Tok == token.VAR && len(gd.Specs) == 1 {
			if vs, ok := gd.Specs[0].(*ast.ValueSpec); ok && len(vs.Values) == 1 {
				return try(vs.Values[0], nil)
			}
		}
	case *ast.ReturnStmt:
		if len(x.Results) == 1 {
			return try(x.Results[0], nil)
		}
		// `return IIFE, nil`: the literal is evaluated first anyway; the other results must be
		// plain identifiers / literals (nothing whose evaluation could be reordered)
		if len(x.Results) > 1 {
			plain := true
			for _, r := range x.Results[1:] {
				switch ast.Unparen(r).(type) {
				case *ast.Ident, *ast.BasicLit:
				default:
					plain = false
				}
			}
			if plain {
				return try(x.Results[0], nil)
			}
		}
	case *ast.ExprStmt:
		return try(x.X, nil)
	}
	return nil, nil
}

// deliteralize rewrites the eligible immediately-invoked literals of one file. counter makes the
// generated names unique across calls.
func deliteralize(name string, src []byte, counter *int) ([]byte, int) {
	total := 0
	for round := 0; round < 64; round++ {
		fset := token.NewFileSet()
		f, err := parser.ParseFile(fset, name, src, parser.ParseComments|parser.SkipObjectResolution)
		if err != nil {
			return src, total
		}
		off := func(p token.Pos) int { return fset.Position(p).Offset }
		var edits []textEdit
		done := false
		visitList := func(list []ast.Stmt) {
			for _, st := range list {
				if done {
					return
				}
				// `return A && IIFE` / `return A || IIFE`: split off the short-circuit first (A is still
				// evaluated first and exactly once); the next round handles `return IIFE`
				if rs, isRet := st.(*ast.ReturnStmt); isRet && len(rs.Results) == 1 {
					if be, isBin := ast.Unparen(rs.Results[0]).(*ast.BinaryExpr); isBin && (be.Op == token.LAND || be.Op == token.LOR) {
						if _, fl2 := iifeOf(be.Y); fl2 != nil && delitEligible(fl2) {
							a := string(src[off(be.X.Pos()):off(be.X.End())])
							y := string(src[off(be.Y.Pos()):off(be.Y.End())])
							var rep string
							if be.Op == token.LAND {
								rep = "if !(" + a + ") {\nreturn false\n}\nreturn " + y
							} else {
								rep = "if " + a + " {\nreturn true\n}\nreturn " + y
							}
							edits = append(edits, textEdit{off(st.Pos()), off(st.End()), rep})
							done = true
							return
						}
					}
				}
				// `var ( a T = x; b U = IIFE )`: one declaration per spec first (the specs of a group are
				// evaluated and come into scope in order anyway); the next round handles `var b U = IIFE`
				if ds, isDecl := st.(*ast.DeclStmt); isDecl {
					if gd, isGen := ds.Decl.(*ast.GenDecl); isGen && gd.Tok == token.VAR && len(gd.Specs) > 1 {
						hasLit := false
						for _, sp := range gd.Specs {
							if vs, isVS := sp.(*ast.ValueSpec); isVS {
								for _, v := range vs.Values {
									if _, fl2 := iifeOf(v); fl2 != nil && delitEligible(fl2) {
										hasLit = true
									}
								}
							}
						}
						if hasLit {
							var rep strings.Builder
							for _, sp := range gd.Specs {
								fmt.Fprintf(&rep, "var %s\n", string(src[off(sp.Pos()):off(sp.End())]))
							}
							edits = append(edits, textEdit{off(st.Pos()), off(st.End()), rep.String()})
							done = true
							return
						}
					}
				}
				call, fl := findHoistable(st)
				if fl == nil {
					continue
				}
				*counter++
				k := *counter
				label := fmt.Sprintf("_inl%d", k)
				var temps []string
				var pre strings.Builder
				var named []string // named results, in order
				var namedDecl strings.Builder
				if fl.Type.Results != nil {
					i := 0
					for _, fld := range fl.Type.Results.List {
						typ := string(src[off(fld.Type.Pos()):off(fld.Type.End())])
						if len(fld.Names) == 0 {
							i++
							t := fmt.Sprintf("_inl%d_r%d", k, i)
							temps = append(temps, t)
							fmt.Fprintf(&pre, "var %s %s\n", t, typ)
							continue
						}
						for _, nm := range fld.Names {
							i++
							t := fmt.Sprintf("_inl%d_r%d", k, i)
							temps = append(temps, t)
							fmt.Fprintf(&pre, "var %s %s\n", t, typ)
							named = append(named, nm.Name)
							fmt.Fprintf(&namedDecl, "var %s %s\n_ = %s\n", nm.Name, typ, nm.Name)
						}
					}
				}
				// body with returns replaced
				var bodyEdits []textEdit
				var walk func(n ast.Node) bool
				walk = func(n ast.Node) bool {
					switch x := n.(type) {
					case *ast.FuncLit:
						return x == fl
					case *ast.ReturnStmt:
						var rep string
						switch {
						case len(x.Results) == 0 && len(named) > 0:
							rep = "{ " + strings.Join(temps, ", ") + " = " + strings.Join(named, ", ") + "; break " + label + " }"
						case len(x.Results) == 0:
							rep = "{ break " + label + " }"
						default:
							rep = "{ " + strings.Join(temps, ", ") + " = " + string(src[off(x.Results[0].Pos()):off(x.Results[len(x.Results)-1].End())]) + "; break " + label + " }"
						}
						bodyEdits = append(bodyEdits, textEdit{off(x.Pos()), off(x.End()), rep})
						return false
					}
					return true
				}
				ast.Inspect(fl, walk)
				bFrom, bTo := off(fl.Body.Lbrace)+1, off(fl.Body.Rbrace)
				for i := range bodyEdits {
					bodyEdits[i].from -= bFrom
					bodyEdits[i].to -= bFrom
				}
				body := applyEdits(append([]byte(nil), src[bFrom:bTo]...), bodyEdits)
				fmt.Fprintf(&pre, "%s:\nfor {\n%s%s\nbreak %s\n}\n", label, namedDecl.String(), body, label)
				repl := strings.Join(temps, ", ")
				if len(temps) == 0 {
					repl = ""
				}
				if _, isExpr := st.(*ast.ExprStmt); isExpr && len(temps) == 0 && ast.Unparen(st.(*ast.ExprStmt).X) == ast.Expr(call) {
					// the whole statement is the call
					edits = append(edits, textEdit{off(st.Pos()), off(st.End()), pre.String()})
				} else if es, isExpr := st.(*ast.ExprStmt); isExpr && ast.Unparen(es.X) == ast.Expr(call) {
					// the whole statement is the call and its results are dropped
					var drop strings.Builder
					for _, t := range temps {
						fmt.Fprintf(&drop, "_ = %s\n", t)
					}
					edits = append(edits, textEdit{off(st.Pos()), off(st.End()), pre.String() + drop.String()})
				} else {
					if len(temps) == 0 {
						continue
					}
					edits = append(edits, textEdit{off(call.Pos()), off(call.End()), repl})
					if _, isIf := st.(*ast.IfStmt); isIf {
						edits = append(edits, textEdit{off(st.Pos()), off(st.Pos()), "{\n" + pre.String()})
						edits = append(edits, textEdit{off(st.End()), off(st.End()), "\n}"})
					} else {
						edits = append(edits, textEdit{off(st.Pos()), off(st.Pos()), pre.String()})
					}
				}
				done = true
			}
		}
		ast.Inspect(f, func(n ast.Node) bool {
			if done {
				return false
			}
			switch x := n.(type) {
			case *ast.BlockStmt:
				visitList(x.List)
			case *ast.CaseClause:
				visitList(x.Body)
			case *ast.CommClause:
				visitList(x.Body)
			}
			return !done
		})
		if !done {
			return src, total
		}
		src = applyEdits(src, edits)
		total++
	}
	return src, total
}
