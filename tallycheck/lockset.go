package main

import (
	"fmt"
	"go/token"
	"go/types"
	"sort"
	"strings"

	"golang.org/x/tools/go/ssa"
)

// A4/A5: a forward must-lockset dataflow over the SSA CFG, specialised to this repository:
// locks are identified by access path (root + field chain; go/ssa does no CSE), deferred lock
// operations are replayed at RunDefers in LIFO order, and functions that release a lock they did
// not take ("requires-lock helpers" such as removeWithRLock) get that lock as an entry
// requirement, which is verified at every call site.

type lockSet map[string]byte // path -> 'R' | 'W'

func (s lockSet) clone() lockSet {
	o := lockSet{}
	for k, v := range s {
		o[k] = v
	}
	return o
}

func (s lockSet) String() string {
	var ks []string
	for k, v := range s {
		ks = append(ks, fmt.Sprintf("%s/%c", k, v))
	}
	sort.Strings(ks)
	return "{" + strings.Join(ks, ", ") + "}"
}

func meetLocks(a, b lockSet) lockSet {
	o := lockSet{}
	for k, va := range a {
		if vb, ok := b[k]; ok {
			if va == 'R' || vb == 'R' {
				o[k] = 'R'
			} else {
				o[k] = 'W'
			}
		}
	}
	return o
}

func sameLocks(a, b lockSet) bool {
	if len(a) != len(b) {
		return false
	}
	for k, v := range a {
		if b[k] != v {
			return false
		}
	}
	return true
}

type lockAnalysis struct {
	fn       *ssa.Function
	in       map[*ssa.BasicBlock]lockSet
	requires lockSet  // locks held on entry (inferred: released before being taken)
	released []string // paths this function releases at some point although held on entry
	problems []string // pairing problems (lock leaked / released when not held after seeding)
	probPos  []ssa.Instruction
	defers   []*ssa.Defer
	// inContext: fn is a function literal that its parent invokes at exactly one place (called or
	// deferred on the spot); requires is then the parent's lockset at that place, and what the literal
	// leaves held or released is the parent's business (checked at the parent's returns)
	inContext bool
}

// inlineLiteralOf returns the function literal that ci invokes directly when that literal is used
// nowhere else (`defer func() { ... }()`, `func() { ... }()`): such a literal runs in its parent's
// locking context.
func inlineLiteralOf(ci ssa.CallInstruction) *ssa.Function {
	com := ci.Common()
	if com.IsInvoke() {
		return nil
	}
	if _, isGo := ci.(*ssa.Go); isGo {
		return nil
	}
	switch v := com.Value.(type) {
	case *ssa.MakeClosure:
		g, _ := v.Fn.(*ssa.Function)
		if g == nil || g.Blocks == nil || g.Parent() != ci.Parent() || v.Referrers() == nil {
			return nil
		}
		for _, u := range *v.Referrers() {
			if u == ci.(ssa.Instruction) {
				continue
			}
			if _, isDbg := u.(*ssa.DebugRef); isDbg {
				continue
			}
			return nil
		}
		return g
	case *ssa.Function:
		if v.Parent() == nil || v.Parent() != ci.Parent() || v.Blocks == nil {
			return nil
		}
		uses := 0
		instrsOf(ci.Parent(), func(in ssa.Instruction) {
			for _, op := range in.Operands(nil) {
				if op != nil && *op == ssa.Value(v) {
					uses++
				}
			}
		})
		if uses == 1 {
			return v
		}
	}
	return nil
}

// inlineSiteOf finds the one instruction of g's parent that invokes the literal g in place.
func inlineSiteOf(g *ssa.Function) ssa.CallInstruction {
	if g == nil || g.Parent() == nil {
		return nil
	}
	var site ssa.CallInstruction
	instrsOf(g.Parent(), func(in ssa.Instruction) {
		if ci, ok := in.(ssa.CallInstruction); ok && site == nil && inlineLiteralOf(ci) == g {
			site = ci
		}
	})
	return site
}

// literalExit runs the literal g from the lockset entry and returns the lockset at its returns.
func (e *lockEngine) literalExit(g *ssa.Function, entry lockSet, depth int) lockSet {
	if depth > 4 {
		return entry
	}
	sub := &lockAnalysis{fn: g, requires: entry.clone(), inContext: true}
	instrsOf(g, func(in ssa.Instruction) {
		if d, ok := in.(*ssa.Defer); ok {
			sub.defers = append(sub.defers, d)
		}
	})
	ins := sub.in
	if e.mayMode {
		ins = e.flowMay(sub)
	} else {
		e.flow(sub, false)
		ins = sub.in
	}
	var exit lockSet
	for _, b := range g.Blocks {
		st, ok := ins[b]
		if !ok || len(b.Instrs) == 0 {
			continue
		}
		if _, isRet := b.Instrs[len(b.Instrs)-1].(*ssa.Return); !isRet {
			continue
		}
		st = st.clone()
		for _, in := range b.Instrs {
			e.step(sub, st, in, false)
		}
		if exit == nil {
			exit = st
		} else if e.mayMode {
			for k, v := range st {
				if cv, has := exit[k]; !has || (cv == 'R' && v == 'W') {
					exit[k] = v
				}
			}
		} else {
			exit = meetLocks(exit, st)
		}
	}
	if exit == nil {
		return entry
	}
	return exit
}

func replaceLocks(dst, src lockSet) {
	for k := range dst {
		delete(dst, k)
	}
	for k, v := range src {
		dst[k] = v
	}
}

type lockEngine struct {
	p    *Program
	memo map[*ssa.Function]*lockAnalysis
	// mayMode: step is being driven by the may-analysis (a literal's effect is then the union over its
	// returns, not the intersection)
	mayMode  bool
	allLoops map[*ssa.Function][]*allLoop
}

// allLoop: a loop whose only effect on locks is one operation on the mutex of the element it visits
// (`for _, b := range r.subscopes { b.mu.RLock() }`): "lock (or unlock) every element". Inside the
// loop the operation is not applied; it is applied once, to the class path `r.subscopes[].mu`, on the
// edges that leave the loop (for an empty collection nothing is locked - and nothing of it is touched).
type allLoop struct {
	loop *loopInfo
	op   *lockOp
}

func (e *lockEngine) allLoopsOf(fn *ssa.Function) []*allLoop {
	if e.allLoops == nil {
		e.allLoops = map[*ssa.Function][]*allLoop{}
	}
	if r, ok := e.allLoops[fn]; ok {
		return r
	}
	var out []*allLoop
	for _, l := range loopsOf(fn) {
		var ops []*lockOp
		other := false
		for _, b := range fn.Blocks {
			if !l.Blocks[b] {
				continue
			}
			for _, in := range b.Instrs {
				if op := lockOpOf(in); op != nil {
					if _, isDefer := in.(*ssa.Defer); isDefer {
						other = true
					}
					ops = append(ops, op)
					continue
				}
				switch x := in.(type) {
				case *ssa.Call:
					if _, isB := x.Call.Value.(*ssa.Builtin); !isB {
						other = true
					}
				case *ssa.Go, *ssa.Defer, *ssa.Store, *ssa.MapUpdate, *ssa.Send:
					other = true
				}
			}
		}
		if other || len(ops) != 1 || !strings.Contains(ops[0].Path, "[]") {
			continue
		}
		out = append(out, &allLoop{loop: l, op: ops[0]})
	}
	e.allLoops[fn] = out
	return out
}

// inAllLoop: in is the single lock operation of a lock-every-element loop.
func (e *lockEngine) inAllLoop(in ssa.Instruction) bool {
	for _, al := range e.allLoopsOf(in.Parent()) {
		if al.op.Call == asCall(in) && al.op.Call != nil {
			return true
		}
	}
	return false
}

// leaveAllLoops applies the operation of every lock-every-element loop that the edge b -> succ leaves.
func (e *lockEngine) leaveAllLoops(b, succ *ssa.BasicBlock, s lockSet) (lockSet, string) {
	pr := ""
	for _, al := range e.allLoopsOf(b.Parent()) {
		if al.loop.Blocks[b] && !al.loop.Blocks[succ] {
			s = s.clone()
			if p := applyLockOp(s, al.op); p != "" {
				pr = p + " (by the loop over every element)"
			}
		}
	}
	return s, pr
}

func (p *Program) newLockEngine() *lockEngine {
	return &lockEngine{p: p, memo: map[*ssa.Function]*lockAnalysis{}}
}

// applyOp updates s for one lock operation; returns a problem string if it releases a lock
// that is not held.
func applyLockOp(s lockSet, op *lockOp) string {
	switch op.Op {
	case "Lock":
		s[op.Path] = 'W'
	case "RLock":
		if s[op.Path] != 'W' {
			s[op.Path] = 'R'
		}
	case "Unlock":
		if s[op.Path] != 'W' {
			return "Unlock of " + op.Path + " which is not held for writing"
		}
		delete(s, op.Path)
	case "RUnlock":
		if s[op.Path] != 'R' {
			return "RUnlock of " + op.Path + " which is not held for reading"
		}
		delete(s, op.Path)
	}
	return ""
}

// step applies instruction in to s (in place).
func (e *lockEngine) step(la *lockAnalysis, s lockSet, in ssa.Instruction, record bool) {
	switch x := in.(type) {
	case *ssa.Defer:
		return
	case *ssa.RunDefers:
		for i := len(la.defers) - 1; i >= 0; i-- {
			d := la.defers[i]
			if !dominates(d, in) {
				continue
			}
			if op := lockOpOf(d); op != nil {
				if pr := applyLockOp(s, op); pr != "" && record {
					la.problems = append(la.problems, pr+" (deferred)")
					la.probPos = append(la.probPos, d)
				}
			} else if lit := inlineLiteralOf(d); lit != nil {
				replaceLocks(s, e.literalExit(lit, s, 0))
			} else if g := staticCallee(d); g != nil && e.p.inModule(g) && g.Blocks != nil {
				e.applyCallee(la, s, d, g, record)
			}
		}
		return
	case *ssa.Call:
		if op := lockOpOf(x); op != nil {
			if e.inAllLoop(x) {
				return // applied on the loop's exit edges
			}
			if pr := applyLockOp(s, op); pr != "" && record {
				la.problems = append(la.problems, pr)
				la.probPos = append(la.probPos, in)
			}
			return
		}
		if lit := inlineLiteralOf(x); lit != nil {
			replaceLocks(s, e.literalExit(lit, s, 0))
			return
		}
		if g := staticCallee(x); g != nil && e.p.inModule(g) && g.Blocks != nil && g != la.fn {
			e.applyCallee(la, s, x, g, record)
		}
	}
}

// applyCallee: the callee's requirements must be held (recorded as a problem otherwise); its net
// effect is empty when its own pairing holds, so the state is unchanged.
func (e *lockEngine) applyCallee(la *lockAnalysis, s lockSet, call ssa.CallInstruction, g *ssa.Function, record bool) {
	ga := e.analyze(g)
	if ga == nil || len(ga.requires) == 0 || !record {
		return
	}
	for rp, mode := range ga.requires {
		cp := substituteParam(g, call, rp)
		held := s[cp]
		if held == 0 || (mode == 'W' && held != 'W') {
			la.problems = append(la.problems, fmt.Sprintf("call of %s requires %s held (%c) but the caller holds %s", g.Name(), cp, mode, s))
			la.probPos = append(la.probPos, call.(ssa.Instruction))
		}
	}
}

// substituteParam rewrites a callee-relative path (rooted at a parameter name) into the caller's
// access path of the corresponding argument.
func substituteParam(g *ssa.Function, call ssa.CallInstruction, path string) string {
	args := call.Common().Args
	for i, p := range g.Params {
		if i >= len(args) {
			break
		}
		if path == p.Name() || strings.HasPrefix(path, p.Name()+".") || strings.HasPrefix(path, p.Name()+"[") {
			return accessPath(args[i]) + strings.TrimPrefix(path, p.Name())
		}
	}
	return path
}

func (e *lockEngine) analyze(fn *ssa.Function) *lockAnalysis {
	if la, ok := e.memo[fn]; ok {
		return la
	}
	la := &lockAnalysis{fn: fn, requires: lockSet{}}
	e.memo[fn] = la // recursion guard
	instrsOf(fn, func(in ssa.Instruction) {
		if d, ok := in.(*ssa.Defer); ok {
			la.defers = append(la.defers, d)
		}
	})
	if site := inlineSiteOf(fn); site != nil {
		// a literal invoked in place: it starts from its parent's lockset at that place
		la.inContext = true
		pa := e.analyze(fn.Parent())
		if pa != nil && pa.in != nil {
			var entry lockSet
			if d, isDefer := site.(*ssa.Defer); isDefer {
				// at every RunDefers the defer reaches: the state after the defers registered later have run
				instrsOf(fn.Parent(), func(in ssa.Instruction) {
					rd, isRD := in.(*ssa.RunDefers)
					if !isRD || !dominates(d, rd) {
						return
					}
					st := e.heldAt(rd)
					for i := len(pa.defers) - 1; i >= 0; i-- {
						dd := pa.defers[i]
						if dd == d {
							break
						}
						if !dominates(dd, rd) {
							continue
						}
						if op := lockOpOf(dd); op != nil {
							applyLockOp(st, op)
						} else if lit := inlineLiteralOf(dd); lit != nil {
							replaceLocks(st, e.literalExit(lit, st, 0))
						}
					}
					if entry == nil {
						entry = st
					} else {
						entry = meetLocks(entry, st)
					}
				})
			} else {
				entry = e.heldAt(site.(ssa.Instruction))
			}
			if entry != nil {
				la.requires = entry
			}
		}
		e.flow(la, true)
		return la
	}
	// pass 1: infer entry requirements = locks released while not held starting from {}
	for iter := 0; iter < 3; iter++ {
		changed := false
		e.flow(la, false)
		// replay to find releases of unheld locks
		for _, b := range fn.Blocks {
			s, ok := la.in[b]
			if !ok {
				continue
			}
			s = s.clone()
			for _, in := range b.Instrs {
				check := func(op *lockOp) {
					if op == nil {
						return
					}
					if (op.Op == "Unlock" && s[op.Path] != 'W') || (op.Op == "RUnlock" && s[op.Path] != 'R') {
						mode := byte('R')
						if op.Op == "Unlock" {
							mode = 'W'
						}
						if la.requires[op.Path] == 0 && rootedAtParam(fn, op.Addr) {
							la.requires[op.Path] = mode
							la.released = append(la.released, op.Path)
							changed = true
						}
					}
				}
				if _, isD := in.(*ssa.Defer); !isD {
					check(lockOpOf(in))
				}
				e.step(la, s, in, false)
			}
		}
		if !changed {
			break
		}
	}
	// pass 2: with the requirements seeded, record problems
	la.problems, la.probPos = nil, nil
	e.flow(la, true)
	return la
}

func rootedAtParam(fn *ssa.Function, addr ssa.Value) bool {
	r := canon(rootOf(addr))
	for _, p := range fn.Params {
		if r == ssa.Value(p) {
			return true
		}
	}
	return false
}

// flow runs the forward dataflow to a fixpoint; with record it also collects pairing problems.
func (e *lockEngine) flow(la *lockAnalysis, record bool) {
	fn := la.fn
	la.in = map[*ssa.BasicBlock]lockSet{}
	if len(fn.Blocks) == 0 {
		return
	}
	la.in[fn.Blocks[0]] = la.requires.clone()
	work := []*ssa.BasicBlock{fn.Blocks[0]}
	out := map[*ssa.BasicBlock]lockSet{}
	for len(work) > 0 {
		b := work[0]
		work = work[1:]
		s := la.in[b].clone()
		for _, in := range b.Instrs {
			e.step(la, s, in, false)
		}
		if prev, ok := out[b]; ok && sameLocks(prev, s) {
			continue
		}
		out[b] = s
		sOut := s
		for si, succ := range b.Succs {
			s := tryLockEdge(b, si, sOut)
			s, _ = e.leaveAllLoops(b, succ, s)
			if cur, ok := la.in[succ]; ok {
				m := meetLocks(cur, s)
				if !sameLocks(m, cur) {
					la.in[succ] = m
					work = append(work, succ)
				}
			} else {
				la.in[succ] = s.clone()
				work = append(work, succ)
			}
		}
	}
	if !record {
		return
	}
	may := e.flowMay(la)
	for _, b := range fn.Blocks {
		s, ok := la.in[b]
		if !ok {
			continue
		}
		s = s.clone()
		sm := may[b].clone()
		for _, in := range b.Instrs {
			e.step(la, s, in, true)
			pm := e.mayMode
			e.mayMode = true
			e.step(la, sm, in, false)
			e.mayMode = pm
			if r, isRet := in.(*ssa.Return); isRet {
				if la.inContext {
					continue // judged at the parent's returns
				}
				if !sameLocks(s, la.requires) {
					la.problems = append(la.problems, fmt.Sprintf("at this return the function holds %s but held %s on entry (a lock is leaked or released for good)", s, la.requires))
					la.probPos = append(la.probPos, r)
					continue
				}
				// the must-set forgets a lock that is held on only some of the paths that join before
				// the return: the may-set does not
				for k := range sm {
					if _, req := la.requires[k]; !req {
						la.problems = append(la.problems, fmt.Sprintf("on some path to this return %s is still held (taken but not released on that path): the lock is leaked", k))
						la.probPos = append(la.probPos, r)
					}
				}
			}
		}
		// s is now the block's out-state: the edges that leave a lock-every-element loop
		for _, succ := range b.Succs {
			if _, pr := e.leaveAllLoops(b, succ, s); pr != "" && len(b.Instrs) > 0 {
				la.problems = append(la.problems, pr)
				la.probPos = append(la.probPos, b.Instrs[len(b.Instrs)-1])
			}
		}
	}
}

// tryLockEdge: when block b ends in `if m.TryLock()` (possibly negated), the state on the successor
// taken when the attempt succeeded has the lock added.
func tryLockEdge(b *ssa.BasicBlock, idx int, s lockSet) lockSet {
	iff, ok := condOf(b)
	if !ok {
		return s
	}
	v := iff.Cond
	neg := false
	for {
		if u, isU := v.(*ssa.UnOp); isU && u.Op == token.NOT {
			neg = !neg
			v = u.X
			continue
		}
		break
	}
	call, isCall := v.(*ssa.Call)
	if !isCall {
		return s
	}
	f := staticCallee(call)
	if f == nil || f.Signature.Recv() == nil {
		return s
	}
	pkg, typ, m := recvNamed(call)
	if pkg != "sync" || (typ != "RWMutex" && typ != "Mutex") || (m != "TryLock" && m != "TryRLock") {
		return s
	}
	success := 0
	if neg {
		success = 1
	}
	if idx != success {
		return s
	}
	out := s.clone()
	path := accessPath(call.Common().Args[0])
	if m == "TryLock" {
		out[path] = 'W'
	} else if out[path] != 'W' {
		out[path] = 'R'
	}
	return out
}

// flowMay: forward may-lockset (union at joins): the locks that are held on at least one path.
func (e *lockEngine) flowMay(la *lockAnalysis) map[*ssa.BasicBlock]lockSet {
	prevMode := e.mayMode
	e.mayMode = true
	defer func() { e.mayMode = prevMode }()
	fn := la.fn
	in := map[*ssa.BasicBlock]lockSet{}
	if len(fn.Blocks) == 0 {
		return in
	}
	in[fn.Blocks[0]] = la.requires.clone()
	work := []*ssa.BasicBlock{fn.Blocks[0]}
	for len(work) > 0 {
		b := work[0]
		work = work[1:]
		s := in[b].clone()
		for _, i := range b.Instrs {
			e.step(la, s, i, false)
		}
		sOut := s
		for si, succ := range b.Succs {
			s := tryLockEdge(b, si, sOut)
			s, _ = e.leaveAllLoops(b, succ, s)
			cur, ok := in[succ]
			if !ok {
				in[succ] = s.clone()
				work = append(work, succ)
				continue
			}
			changed := false
			for k, v := range s {
				if cv, has := cur[k]; !has || (cv == 'R' && v == 'W') {
					cur[k] = v
					changed = true
				}
			}
			if changed {
				work = append(work, succ)
			}
		}
	}
	return in
}

// heldAt returns the lockset just before instruction at.
func (e *lockEngine) heldAt(at ssa.Instruction) lockSet {
	la := e.analyze(at.Parent())
	s, ok := la.in[at.Block()]
	if !ok {
		return lockSet{}
	}
	s = s.clone()
	for _, in := range at.Block().Instrs {
		if in == at {
			break
		}
		e.step(la, s, in, false)
	}
	return s
}

// ---- guarded field table ------------------------------------------------------------------------

type guardSpec2 struct {
	pkg, typ string
	fields   []string
	mutex    string // sibling mutex field (for an embedded mutex: its type name, e.g. "RWMutex")
}

var guardTable = []guardSpec2{
	{"", "scope", []string{"counters", "countersSlice"}, "cm"},
	{"", "scope", []string{"gauges", "gaugesSlice"}, "gm"},
	{"", "scope", []string{"timers"}, "tm"},
	{"", "scope", []string{"histograms", "histogramsSlice"}, "hm"},
	{"", "scopeBucket", []string{"s"}, "mu"},
	{"", "bucketCache", []string{"cache"}, "mtx"},
	{"", "timerValues", []string{"values"}, "RWMutex"},
	{"internal/cache", "TagCache", []string{"entries"}, "mtx"},
	{"internal/cache", "StringInterner", []string{"entries"}, "mtx"},
	{"prometheus", "reporter", []string{"counters", "gauges", "timers"}, "RWMutex"},
	{"m3", "reporter", []string{"calc", "calcProto"}, "calcLock"},
}

type guardedAccess struct {
	fld   *types.Var
	mutex string
	base  ssa.Value
	at    ssa.Instruction
	write bool
}

// guardedAccesses lists every access of a guarded field in fn: the load/store of the field itself
// and the direct uses of the loaded map/slice value (lookup, update, delete, range, index, len).
func (p *Program) guardedAccesses(fn *ssa.Function, guards map[*types.Var]string) []guardedAccess {
	var out []guardedAccess
	instrsOf(fn, func(in ssa.Instruction) {
		fa, ok := in.(*ssa.FieldAddr)
		if !ok || fa.Referrers() == nil {
			return
		}
		fld := structFieldOf(fa.X.Type(), fa.Field)
		mx, guarded := guards[fld]
		if !guarded {
			return
		}
		for _, u := range *fa.Referrers() {
			switch x := u.(type) {
			case *ssa.Store:
				if x.Addr == ssa.Value(fa) {
					out = append(out, guardedAccess{fld, mx, fa.X, x, true})
				}
			case *ssa.UnOp:
				out = append(out, guardedAccess{fld, mx, fa.X, x, false})
				if x.Referrers() == nil {
					continue
				}
				for _, uu := range *x.Referrers() {
					switch y := uu.(type) {
					case *ssa.MapUpdate:
						if y.Map == ssa.Value(x) {
							out = append(out, guardedAccess{fld, mx, fa.X, y, true})
						}
					case *ssa.Lookup:
						if y.X == ssa.Value(x) {
							out = append(out, guardedAccess{fld, mx, fa.X, y, false})
						}
					case *ssa.Range:
						out = append(out, guardedAccess{fld, mx, fa.X, y, false})
						if y.Referrers() != nil {
							for _, nx := range *y.Referrers() {
								if n, isN := nx.(*ssa.Next); isN {
									out = append(out, guardedAccess{fld, mx, fa.X, n, false})
								}
							}
						}
					case *ssa.IndexAddr:
						out = append(out, guardedAccess{fld, mx, fa.X, y, false})
					case *ssa.Call:
						if isBuiltin(y, "delete") {
							out = append(out, guardedAccess{fld, mx, fa.X, y, true})
						} else if isBuiltin(y, "len") || isBuiltin(y, "append") {
							out = append(out, guardedAccess{fld, mx, fa.X, y, false})
						}
					}
				}
			}
		}
	})
	return out
}
