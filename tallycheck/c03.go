package main

import (
	"fmt"
	"go/ast"
	"go/constant"
	"go/token"
	"go/types"
	"math"

	"golang.org/x/tools/go/ssa"
)

func init() { register("C03", checkC03) }

// searchSite describes one sort.Search call.
type searchSite struct {
	fn      *ssa.Function
	call    *ssa.Call
	n       ssa.Value // first argument
	closure *ssa.Function
	binds   []ssa.Value
}

func (p *Program) searchSites(fns []*ssa.Function) []*searchSite {
	var out []*searchSite
	for _, fn := range fns {
		instrsOf(fn, func(in ssa.Instruction) {
			call, ok := in.(*ssa.Call)
			if !ok {
				return
			}
			if _, isS := isCallTo(call, "sort", "Search"); !isS {
				return
			}
			s := &searchSite{fn: fn, call: call, n: call.Call.Args[0]}
			switch f := call.Call.Args[1].(type) {
			case *ssa.MakeClosure:
				s.closure, _ = f.Fn.(*ssa.Function)
				s.binds = f.Bindings
			case *ssa.Function:
				s.closure = f
			}
			out = append(out, s)
		})
	}
	return out
}

// freeVarBinding resolves a free variable of the closure to the value bound at the MakeClosure.
func (s *searchSite) binding(v ssa.Value) ssa.Value {
	if fv, ok := v.(*ssa.FreeVar); ok && s.closure != nil {
		for i, f := range s.closure.FreeVars {
			if f == fv && i < len(s.binds) {
				return s.binds[i]
			}
		}
	}
	return v
}

// derefAlloc: closures capture variables by reference (an Alloc); returns the value stored into
// the alloc when there is exactly one store (parameters spilled to the heap).
func soleStore(v ssa.Value) ssa.Value {
	al, ok := v.(*ssa.Alloc)
	if !ok || al.Referrers() == nil {
		return v
	}
	var val ssa.Value
	n := 0
	for _, r := range *al.Referrers() {
		if st, isSt := r.(*ssa.Store); isSt && st.Addr == ssa.Value(al) {
			val = st.Val
			n++
		}
	}
	if n == 1 {
		return val
	}
	return v
}

func checkC03(c *Ctx) {
	c.Explanation = "Decides the structural core of histogram bucketing: (O1) the bucket search in RecordValue/RecordDuration is sort.Search(len(B), B[i].<bound of the right kind> >= sample) over the histogram's own bucket list; (O2/O3) exactly one Inc(1) on samples[index], dominated by the type guard with the matching histogram-type constant; (O4) a float search result is range-guarded (clamped) before it indexes samples, an integer search relies on the terminal MaxInt64 bound, and samples is made with len(buckets); (O5) bounds tile the line by construction: BucketPairs works on a sorted copy (strict <), open ends are the _singleBucket extremes, lower-bound helpers return the previous upper bound of the same list and kind, delivery/allocation sites pass (lowerBound(B,i), B[i].upper) for the same B, i and kind, bucket storage copies UpperBoundValue/UpperBoundDuration into the same-kind fields."
	c.Explanation += " Added later: (O6 keeps-bounds, shared with C20) the bound table shared between a cache entry and its histograms is written only where it is allocated."
	c.Explanation += " Added by round 8: (O5 pairs-from-specification) BucketPairs / newBucketStorage and their module callees touch no package-level variable written after initialisation."
	c.NotDecided = []string{"sortedness as a value fact (sort.Sort trusted)", "sample counts for concrete inputs", "the full lower/upper chaining inside BucketPairs beyond the provenance classes checked"}

	hist := c.named("", "histogram")
	fBuckets, fSamples, fHtype := c.field("", "histogram", "buckets"), c.field("", "histogram", "samples"), c.field("", "histogram", "htype")
	fVal, fDur := c.field("", "histogramBucket", "valueUpperBound"), c.field("", "histogramBucket", "durationUpperBound")
	if hist == nil || fBuckets == nil || fSamples == nil || fHtype == nil || fVal == nil || fDur == nil {
		c.missing("O1 search-predicate", "tally.histogram{buckets,samples,htype} / histogramBucket{valueUpperBound,durationUpperBound}")
		return
	}
	constOf := func(name string) (int64, bool) {
		k, ok := c.pkg("").Types.Scope().Lookup(name).(*types.Const)
		if !ok {
			return 0, false
		}
		v, exact := constant.Int64Val(constant.ToInt(k.Val()))
		return v, exact
	}
	kValue, okV := constOf("valueHistogramType")
	kDur, okD := constOf("durationHistogramType")
	if !okV || !okD {
		c.missing("O3 type-guard", "constants valueHistogramType / durationHistogramType")
		return
	}
	fCounter := c.field("", "sampleCounter", "counter")
	incFn := c.fn("", "counter", "Inc")

	// record functions: methods of histogram that call sort.Search
	var recFns []*ssa.Function
	for _, fn := range c.funcsOfPkg("") {
		if fn.Signature.Recv() != nil && deref(fn.Signature.Recv().Type()) == types.Type(hist) {
			recFns = append(recFns, fn)
		}
	}
	sites := c.searchSites(recFns)
	c.floor("O1 search-predicate", len(sites), 2)
	for _, s0 := range sites {
		s := s0
		key := c.fnKey(s.fn)
		c.sawFunc(key)
		c.callSites++
		// sample parameter and kind
		var sample *ssa.Parameter
		for _, p := range s.fn.Params[1:] {
			sample = p
		}
		if sample == nil {
			c.undecided("O1 search-predicate", key, s.call.Pos(), "record function without a sample parameter")
			continue
		}
		isFloat := false
		wantFld, wantK, kind := fDur, kDur, "duration"
		if b, ok := sample.Type().Underlying().(*types.Basic); ok && b.Info()&types.IsFloat != 0 {
			isFloat = true
			wantFld, wantK, kind = fVal, kValue, "value"
		}
		// The search may live in a same-receiver helper that returns the search result unchanged
		// (`idx := h.bucketIndex(v)`): the range/predicate rules are decided in the helper, the
		// increment/guard/index rules in each caller, with the helper call standing for the result.
		type recSite struct {
			fn  *ssa.Function
			res *ssa.Call
		}
		recs := []recSite{{s.fn, s.call}}
		hasInc := false
		instrsOf(s.fn, func(in ssa.Instruction) {
			if call, ok := in.(*ssa.Call); ok && incFn != nil && staticCallee(call) == incFn {
				hasInc = true
			}
		})
		if rets := returnsOf(s.fn); !hasInc && len(rets) == 1 && len(rets[0].Results) == 1 && stripConv(rets[0].Results[0]) == ssa.Value(s.call) {
			recs = nil
			for _, caller := range recFns {
				instrsOf(caller, func(in ssa.Instruction) {
					call, ok := in.(*ssa.Call)
					if !ok || staticCallee(call) != s.fn {
						return
					}
					okArgs := len(call.Call.Args) == len(s.fn.Params) && canon(call.Call.Args[0]) == ssa.Value(caller.Params[0])
					if okArgs {
						var callerSample *ssa.Parameter
						for _, p := range caller.Params[1:] {
							callerSample = p
						}
						okArgs = callerSample != nil && canon(call.Call.Args[len(call.Call.Args)-1]) == ssa.Value(callerSample)
					}
					if !okArgs {
						c.bad("O1 search-predicate", c.fnKey(caller)+":helper-args", call.Pos(), "the bucket index helper is not called on the receiver with the recorded sample", c.describe(call))
						return
					}
					recs = append(recs, recSite{caller, call})
				})
			}
			if len(recs) == 0 {
				c.bad("O2 one-increment", key, s.call.Pos(), "the bucket search result is not used to count a sample")
			}
		}
		// n = len(h.buckets)
		okN := false
		if ln, ok := s.n.(*ssa.Call); ok && isBuiltin(ln, "len") {
			if f, base := loadedField(canon(ln.Call.Args[0])); f == fBuckets && canon(base) == ssa.Value(s.fn.Params[0]) {
				okN = true
			}
		}
		c.check(okN, "O1 search-range", key, s.call.Pos(), "search range is len(h.buckets)",
			"the bucket search does not range over len(h.buckets) of the receiver: some buckets can never be chosen", c.describe(s.call))
		// predicate
		if s.closure == nil {
			c.undecided("O1 search-predicate", key, s.call.Pos(), "search predicate is not a function literal")
			continue
		}
		rets := returnsOf(s.closure)
		predOK := len(rets) == 1
		why := "predicate has several returns"
		if predOK {
			op, x, y, isCmp := cmpOf(rets[0].Results[0])
			predOK = false
			why = "the search predicate is not a single comparison"
			if isCmp {
				// normalise to bound OP sample
				xf, xbase := loadedField(x)
				if xf == nil {
					yf, ybase := loadedField(y)
					if yf != nil {
						x, y = y, x
						op = flipCmp(op)
						xf, xbase = yf, ybase
					}
				}
				_ = xbase
				switch {
				case xf == nil:
					why = "the search predicate does not compare a bucket bound field"
				case xf != wantFld:
					why = fmt.Sprintf("the search predicate reads %s in a %s histogram's record function (wrong kind of bound)", xf.Name(), kind)
				case op != token.GEQ:
					why = fmt.Sprintf("the search predicate is `bound %s sample`, it must be `bound >= sample` (smallest upper bound that is >= the sample): with %s a sample equal to a bound lands in the wrong bucket", op, op)
				default:
					// x = (*IndexAddr(h.buckets, i)).field ; y = sample
					okIdx := false
					if ld, isLd := x.(*ssa.UnOp); isLd {
						if fa, isFA := ld.X.(*ssa.FieldAddr); isFA {
							if ia, isIA := fa.X.(*ssa.IndexAddr); isIA {
								bf, bbase := loadedField(canon(ia.X))
								if bf == fBuckets && canon(bbase) == ssa.Value(s.fn.Params[0]) {
									if len(s.closure.Params) == 1 && ia.Index == ssa.Value(s.closure.Params[0]) {
										okIdx = true
									}
								}
							}
						}
					}
					okSample := canon(y) == ssa.Value(sample)
					switch {
					case !okIdx:
						why = "the search predicate does not read h.buckets[i] of the receiver at the searched index i"
					case !okSample:
						why = "the search predicate does not compare against the recorded sample (the function's parameter)"
					default:
						predOK = true
					}
				}
			}
		}
		c.check(predOK, "O1 search-predicate", key, s.call.Pos(), "predicate is h.buckets[i]."+wantFld.Name()+" >= sample", why, c.describe(s.call))

		for _, rs := range recs {
			rkey := c.fnKey(rs.fn)
			c.sawFunc(rkey)
			// Inc sites: counter.Inc on samples[..].counter of the receiver
			var incs []*ssa.Call
			instrsOf(rs.fn, func(in ssa.Instruction) {
				call, ok := in.(*ssa.Call)
				if !ok || incFn == nil || staticCallee(call) != incFn {
					return
				}
				incs = append(incs, call)
			})
			if len(incs) != 1 {
				c.bad("O2 one-increment", rkey, rs.res.Pos(), fmt.Sprintf("the record function contains %d counter increments (expected exactly one)", len(incs)))
				continue
			}
			inc := incs[0]
			one, isOne := constInt(inc.Call.Args[1])
			cnt := c.newPathCounter(func(i ssa.Instruction) bool { return i == ssa.Instruction(inc) }, 0).fn(rs.fn, 0)
			c.paths++
			c.check(isOne && one == 1 && cnt.max == 1, "O2 one-increment", rkey, inc.Pos(), "one Inc(1) per recorded sample",
				"the sample is not counted by exactly one Inc(1)", c.describe(inc))
			// receiver of Inc = load(&samples[idx].counter)
			var idxV ssa.Value
			okRecv := false
			if f, base := loadedField(inc.Call.Args[0]); f == fCounter && fCounter != nil {
				if ia, isIA := base.(*ssa.IndexAddr); isIA {
					if sf, sbase := loadedField(ia.X); sf == fSamples && canon(sbase) == ssa.Value(rs.fn.Params[0]) {
						okRecv = true
						idxV = ia.Index
					}
				}
			}
			if !okRecv {
				c.bad("O2 one-increment", rkey+":target", inc.Pos(), "the increment does not target h.samples[index].counter of the receiver", c.describe(inc))
				continue
			}
			// O3 type guard
			guard := guardedByEdge(inc, func(cond ssa.Value) (bool, bool) {
				op, x, y, ok := cmpOf(cond)
				if !ok || (op != token.EQL && op != token.NEQ) {
					return false, false
				}
				if _, isC := x.(*ssa.Const); isC {
					x, y = y, x
				}
				f, base := loadedField(x)
				if f != fHtype || canon(base) != ssa.Value(rs.fn.Params[0]) {
					return false, false
				}
				k, isK := constInt(y)
				if !isK || k != wantK {
					return false, false
				}
				return true, op == token.EQL
			})
			c.check(guard != nil, "O3 type-guard", rkey, inc.Pos(), "increment dominated by htype == "+kind+"HistogramType",
				"the increment is not guarded by `h.htype == "+kind+"HistogramType`: a "+kind+" sample is counted by a histogram of the other kind (or the guard tests the wrong constant)", c.describe(inc))

			// O4 index guard
			c.checkSearchIndex("O4 index-guard", rkey, &searchSite{fn: rs.fn, call: rs.res}, idxV, fSamples, fBuckets, isFloat)
		}
	}

	// O4b: samples made with len(buckets)
	c.checkSamplesLen("O4 samples-len", fSamples, fBuckets)

	// O5 lower-bound helpers + delivery pairs
	c.checkLowerBoundHelper("O5 lower-bound", "valueLowerBound", fVal, -math.MaxFloat64, true)
	c.checkLowerBoundHelper("O5 lower-bound", "durationLowerBound", fDur, float64(math.MinInt64), false)
	c.checkBoundPairs("O5 bound-pairs", fVal, fDur)
	c.checkSortedCopy("O5 sorted-copy")
	c.checkSingleBucket("O5 open-ends")
	c.checkPairsDefault("O5 pairs-default")
	c.checkBucketStorage("O5 storage-fields", fVal, fDur)
	c.checkPairAccessors("O5 pair-accessors")
	c.checkBucketsUsed("O7 buckets-used")
	c.checkCachedBucketPerBucket("O8 cached-bucket-per-bucket")
	// the specification a histogram was asked for is never reordered or otherwise modified (shared with C20 O3)
	c.checkNoBucketMutation("O5 caller-slice")
	// O6: a histogram uses the bounds it was created with (shared with C20 O4)
	c.checkBucketCacheGet("O6 own-buckets")
	c.checkBucketsEqual("O6 own-buckets-equal")
	// conservation per bucket: both histogram passes walk every bucket on every path (shared with C01 O7)
	c.checkHistogramBucketCoverage("O4 bucket-coverage")
	// ... and keeps them: the bound table histograms share by reference is written only where it is allocated (shared with C20 O6)
	c.checkBoundTablePrivate("O6 keeps-bounds")
	// the pairs / the storage built for a specification are a function of that specification's contents
	c.checkOnePairPerBound("O5 one-pair-per-bound")
	c.checkNoGlobalState("O5 pairs-from-specification", c.fn("", "", "BucketPairs"), c.fn("", "", "newBucketStorage"))
}

// checkSearchIndex: A12.
func (c *Ctx) checkSearchIndex(rule, key string, s *searchSite, idx ssa.Value, fSamples, fBuckets *types.Var, isFloat bool) {
	recv := ssa.Value(s.fn.Params[0])
	isLenOf := func(v ssa.Value) bool {
		ln, ok := stripConv(v).(*ssa.Call)
		if !ok || !isBuiltin(ln, "len") {
			return false
		}
		f, base := loadedField(ln.Call.Args[0])
		return (f == fSamples || f == fBuckets) && canon(base) == recv
	}
	isLenMinus1 := func(v ssa.Value) bool {
		bo, isB := stripConv(v).(*ssa.BinOp)
		if !isB || bo.Op != token.SUB || !isLenOf(bo.X) {
			return false
		}
		k, isK := constInt(bo.Y)
		return isK && k == 1
	}
	inRange := func(cond ssa.Value) (bool, bool) { // "S < len" / "S <= len-1" in any spelling; returns (match, onTrue)
		op, x, y, ok := cmpOf(cond)
		if !ok {
			return false, false
		}
		if stripConv(y) == ssa.Value(s.call) {
			x, y = y, x
			op = flipCmp(op)
		}
		if stripConv(x) != ssa.Value(s.call) {
			return false, false
		}
		switch {
		case isLenOf(y):
			switch op {
			case token.LSS, token.NEQ:
				return true, true
			case token.GEQ, token.EQL:
				return true, false
			}
		case isLenMinus1(y):
			switch op {
			case token.LEQ:
				return true, true
			case token.GTR:
				return true, false
			}
		}
		return false, false
	}
	if idx == ssa.Value(s.call) {
		if !isFloat {
			c.ok(rule, key, s.call.Pos(), "integer search: the terminal MaxInt64 bound makes the predicate true for the last bucket (checked by O5 open-ends)")
			return
		}
		// must be dominated by an in-range edge
		var use ssa.Instruction = s.call
		for _, r := range *s.call.Referrers() {
			if ia, ok := r.(*ssa.IndexAddr); ok {
				use = ia
			}
		}
		if guardedByEdge(use, inRange) != nil {
			c.ok(rule, key, use.Pos(), "search result is range-checked before indexing")
			return
		}
		c.bad(rule, key, use.Pos(), "the float bucket search result indexes h.samples without a range guard: +Inf and NaN compare false against every bound, sort.Search returns len(buckets) and the index is out of range (panic)", c.describe(use))
		return
	}
	if phi, ok := idx.(*ssa.Phi); ok {
		okAll := true
		for i, e := range phi.Edges {
			pred := phi.Block().Preds[i]
			switch {
			case stripConv(e) == ssa.Value(s.call):
				// this edge must come from the in-range outcome
				g := false
				for _, b := range s.fn.Blocks {
					iff, isIf := condOf(b)
					if !isIf {
						continue
					}
					if m, onTrue := inRange(iff.Cond); m {
						si := 1
						if onTrue {
							si = 0
						}
						if b == pred && b.Succs[si] == phi.Block() || edgeDominates(b, si, pred) {
							g = true
						}
					}
				}
				if !g && isFloat {
					okAll = false
				}
			default:
				// len(...) - 1
				bo, isB := stripConv(e).(*ssa.BinOp)
				k, isK := int64(0), false
				if isB {
					k, isK = constInt(bo.Y)
				}
				if !(isB && bo.Op == token.SUB && isLenOf(bo.X) && isK && k == 1) {
					okAll = false
				}
			}
		}
		c.check(okAll, rule, key, phi.Pos(), "search result clamped to the last bucket before indexing",
			"the index used for h.samples is neither the range-checked search result nor len-1 (clamp): samples can land in a wrong bucket or index out of range")
		return
	}
	c.bad(rule, key, s.call.Pos(), "the index used for h.samples is not the search result (e.g. shifted by arithmetic): the sample is counted in a different bucket than the one found")
}

// checkSamplesLen: every store to histogram.samples is make([]T, len(X)) where X is what is stored
// into histogram.buckets of the same object.
func (c *Ctx) checkSamplesLen(rule string, fSamples, fBuckets *types.Var) {
	n := 0
	for _, fn := range c.funcsOfPkg("") {
		var sStore, bStore *ssa.Store
		instrsOf(fn, func(in ssa.Instruction) {
			if st, ok := in.(*ssa.Store); ok {
				if f, _ := addrField(st.Addr); f == fSamples {
					sStore = st
				} else if f == fBuckets {
					bStore = st
				}
			}
		})
		if sStore == nil {
			continue
		}
		n++
		key := c.fnKey(fn)
		ok := false
		if ms, isMS := sStore.Val.(*ssa.MakeSlice); isMS && bStore != nil {
			if ln, isLn := stripConv(ms.Len).(*ssa.Call); isLn && isBuiltin(ln, "len") {
				if accessPath(ln.Call.Args[0]) == accessPath(bStore.Val) {
					ok = true
				}
			}
		}
		c.check(ok, rule, key, sStore.Pos(), "samples is made with len(<what is stored as buckets>)",
			"histogram.samples is not allocated with the length of the list stored as histogram.buckets: the index found over buckets may not exist in samples", c.describe(sStore))
	}
	c.floor(rule, n, 1)
}

// checkLowerBoundHelper: fn(buckets, i) returns the open-end constant when i <= 0 and otherwise
// buckets[i-1].<fld>.
func (c *Ctx) checkLowerBoundHelper(rule, name string, fld *types.Var, open float64, isFloat bool) {
	fn := c.fn("", "", name)
	if fn == nil {
		c.missing(rule, "function tally."+name)
		return
	}
	c.sawFunc(c.fnKey(fn))
	key := c.fnKey(fn)
	if len(fn.Params) != 2 {
		c.undecided(rule, key, fn.Pos(), "unexpected signature")
		return
	}
	pb, pi := fn.Params[0], fn.Params[1]
	okAll := true
	nConst, nPrev := 0, 0
	for _, r := range returnsOf(fn) {
		v := stripConv(r.Results[0])
		if cv, isConv := v.(*ssa.Convert); isConv {
			v = cv.X
		}
		if k, isK := v.(*ssa.Const); isK && k.Value != nil {
			f, _ := constant.Float64Val(constant.ToFloat(k.Value))
			if f != open {
				okAll = false
				c.bad(rule, key, r.Pos(), fmt.Sprintf("the open lower end is rendered as %v, it must be the minimum representable (%v): the first bucket's range no longer starts at the bottom of the line", f, open), c.describe(r))
				continue
			}
			// guarded by i <= 0 (or i == 0 / i < 1)
			g := guardedByEdge(r, func(cond ssa.Value) (bool, bool) {
				op, x, y, ok := cmpOf(cond)
				if !ok || stripConv(x) != ssa.Value(pi) {
					return false, false
				}
				k, isK := constInt(y)
				if !isK {
					return false, false
				}
				switch {
				case op == token.LEQ && k == 0, op == token.LSS && k == 1, op == token.EQL && k == 0:
					return true, true
				case op == token.GTR && k == 0, op == token.GEQ && k == 1, op == token.NEQ && k == 0:
					return true, false
				}
				return false, false
			})
			if g == nil {
				okAll = false
				c.bad(rule, key, r.Pos(), "the open-end constant is returned on a path not restricted to i <= 0", c.describe(r))
			}
			nConst++
			continue
		}
		// buckets[i-1].fld
		okPrev := false
		if f, base := loadedField(v); f == fld {
			if ia, isIA := base.(*ssa.IndexAddr); isIA && ia.X == ssa.Value(pb) {
				if bo, isB := ia.Index.(*ssa.BinOp); isB && bo.Op == token.SUB && bo.X == ssa.Value(pi) {
					if k, isK := constInt(bo.Y); isK && k == 1 {
						okPrev = true
					}
				}
			}
		}
		if !okPrev {
			okAll = false
			c.bad(rule, key, r.Pos(), "the lower bound returned is not buckets[i-1]."+fld.Name()+" (the previous bucket's upper bound of the same kind): consecutive buckets overlap or leave a gap", c.describe(r))
		}
		nPrev++
	}
	if okAll && (nConst == 0 || nPrev == 0) {
		okAll = false
		c.bad(rule, key, fn.Pos(), "the helper lacks the open-end case or the previous-upper-bound case")
	}
	if okAll {
		c.ok(rule, key, fn.Pos(), "i <= 0 -> open end; otherwise buckets[i-1]."+fld.Name())
	}
	_ = isFloat
}

// checkBoundPairs: wherever a (lower, upper) pair of the same kind is passed to a reporter or a
// cached histogram, lower = <kind>LowerBound(B, i) and upper = B[i].<kind>UpperBound for the same
// B and i.
func (c *Ctx) checkBoundPairs(rule string, fVal, fDur *types.Var) {
	type sink struct {
		m     *types.Func
		fld   *types.Var
		lower string
		at    int // index of lower among Args
	}
	sinks := []sink{
		{c.ifaceMethod("", "StatsReporter", "ReportHistogramValueSamples"), fVal, "valueLowerBound", 3},
		{c.ifaceMethod("", "StatsReporter", "ReportHistogramDurationSamples"), fDur, "durationLowerBound", 3},
		{c.ifaceMethod("", "CachedHistogram", "ValueBucket"), fVal, "valueLowerBound", 0},
		{c.ifaceMethod("", "CachedHistogram", "DurationBucket"), fDur, "durationLowerBound", 0},
	}
	n := 0
	for _, s := range sinks {
		if s.m == nil {
			c.missing(rule, "reporter interface method")
			continue
		}
		lowerFn := c.fn("", "", s.lower)
		for _, call := range invokesOf(c.funcsOfPkg(""), s.m) {
			in := call.(ssa.Instruction)
			fn := in.Parent()
			// only histogram code (not forwarding wrappers)
			args := call.Common().Args
			if len(args) < s.at+2 {
				continue
			}
			n++
			c.callSites++
			key := c.fnKey(fn) + ":" + s.m.Name()
			lo, up := stripConv(args[s.at]), stripConv(args[s.at+1])
			ok := false
			why := "the lower bound argument is not " + s.lower + "(B, i)"
			if lc, isCall := lo.(*ssa.Call); isCall && lowerFn != nil && staticCallee(lc) == lowerFn {
				why = "the upper bound argument is not B[i]." + s.fld.Name() + " for the same B and i as the lower bound"
				f, base := loadedField(up)
				if fv, isF := up.(*ssa.Field); isF {
					// `for i, b := range B { ... b.upper ... }`: field of the element copy *(&B[i])
					f = structFieldOf(fv.X.Type(), fv.Field)
					base = nil
					if ld, isLd := stripConv(fv.X).(*ssa.UnOp); isLd && ld.Op == token.MUL {
						base = ld.X
					}
				}
				if al, isAl := base.(*ssa.Alloc); isAl {
					// range-value variable kept in a local cell: `*cell = *(&B[i])`
					if ld, isLd := up.(*ssa.UnOp); isLd {
						if stores, fromEntry := reachingStores(al, ld); !fromEntry && len(stores) == 1 {
							if src, isSrc := stripConv(stores[0].Val).(*ssa.UnOp); isSrc && src.Op == token.MUL {
								base = src.X
							}
						}
					}
				}
				if f == s.fld {
					if ia, isIA := base.(*ssa.IndexAddr); isIA {
						if accessPath(ia.X) == accessPath(lc.Call.Args[0]) && stripConv(ia.Index) == stripConv(lc.Call.Args[1]) {
							ok = true
						}
					}
				} else if f != nil {
					why = "the upper bound argument reads " + f.Name() + " where " + s.fld.Name() + " is required (wrong kind)"
				}
			}
			c.check(ok, rule, key, in.Pos(), "(lower, upper) = ("+s.lower+"(B,i), B[i]."+s.fld.Name()+")", why+": the bounds delivered for a bucket do not tile the line", c.describe(in))
		}
	}
	c.floor(rule, n, 4)
}

// checkSortedCopy: copyAndSort{Values,Durations}: result is a fresh slice, filled by copy() from
// the parameter, sorted by sort.Sort before it is returned; the parameter itself never reaches a
// mutation; BucketPairs takes its bounds only through them; Less is strict.
func (c *Ctx) checkSortedCopy(rule string) {
	bp := c.fn("", "", "BucketPairs")
	if bp == nil {
		c.missing(rule, "function tally.BucketPairs")
		return
	}
	c.sawFunc(c.fnKey(bp))
	mVals, mDurs := c.ifaceMethod("", "Buckets", "AsValues"), c.ifaceMethod("", "Buckets", "AsDurations")
	n := 0
	for _, call := range invokesOf([]*ssa.Function{bp}, mVals, mDurs) {
		v, ok := call.(*ssa.Call)
		if !ok {
			continue
		}
		n++
		key := "BucketPairs:" + call.Common().Method.Name()
		okAll := true
		if v.Referrers() != nil {
			for _, r := range *v.Referrers() {
				rc, isCall := r.(*ssa.Call)
				if !isCall || staticCallee(rc) == nil || !c.isSortedCopyFn(staticCallee(rc)) {
					if _, isDbg := r.(*ssa.DebugRef); isDbg {
						continue
					}
					okAll = false
					c.bad(rule, key, r.Pos(), "the caller's bucket list is used directly instead of through a sorted copy: bounds are delivered unsorted (upper bounds decrease) or the caller's slice is modified", c.describe(r))
				}
			}
		}
		if okAll {
			c.ok(rule, key, v.Pos(), "bounds reach BucketPairs only through a copy that is sorted before use")
		}
	}
	c.floor(rule, n, 2)
	for _, t := range []string{"ValueBuckets", "DurationBuckets"} {
		less := c.fn("", t, "Less")
		if less == nil {
			c.missing(rule, "method tally."+t+".Less")
			continue
		}
		ok := false
		if rets := returnsOf(less); len(rets) == 1 {
			if op, x, y, isCmp := cmpOf(rets[0].Results[0]); isCmp && op == token.LSS {
				xi, yi := indexOfParam(less, x), indexOfParam(less, y)
				if xi == 1 && yi == 2 {
					ok = true
				}
			} else if isCmp && op == token.GTR {
				xi, yi := indexOfParam(less, x), indexOfParam(less, y)
				if xi == 2 && yi == 1 {
					ok = true
				}
			}
		}
		c.check(ok, rule, t+".Less", less.Pos(), "Less(i,j) is v[i] < v[j]", "Less(i,j) is not the strict `v[i] < v[j]`: the sorted copy is not ascending", "")
	}
}

// indexOfParam: v is receiver[param k] -> k (1-based over Params), else -1.
func indexOfParam(fn *ssa.Function, v ssa.Value) int {
	ld, ok := stripConv(v).(*ssa.UnOp)
	if !ok {
		return -1
	}
	ia, ok := ld.X.(*ssa.IndexAddr)
	if !ok || ia.X != ssa.Value(fn.Params[0]) {
		return -1
	}
	return paramIndex(fn, ia.Index)
}

// isSortedCopyFn: one slice parameter; returns a MakeSlice that was filled by copy(fresh, param)
// and passed (converted) to sort.Sort / sort.Stable / sort.Slice before the return.
func (c *Ctx) isSortedCopyFn(fn *ssa.Function) bool {
	if fn == nil || fn.Blocks == nil || len(fn.Params) != 1 {
		return false
	}
	rets := returnsOf(fn)
	if len(rets) != 1 {
		return false
	}
	// (a copy captured by a sort.Slice closure lives in a cell: canon looks through it)
	fresh, ok := stripConv(canon(rets[0].Results[0])).(*ssa.MakeSlice)
	if !ok {
		return false
	}
	copied, sorted := false, false
	var sortCall ssa.Instruction
	instrsOf(fn, func(in ssa.Instruction) {
		call, isCall := in.(*ssa.Call)
		if !isCall {
			return
		}
		if isBuiltin(call, "copy") && canon(call.Call.Args[0]) == ssa.Value(fresh) && canon(call.Call.Args[1]) == ssa.Value(fn.Params[0]) {
			copied = true
		}
		for _, nm := range []string{"Sort", "Stable", "Slice", "SliceStable", "Float64s", "Ints"} {
			if _, isS := isCallTo(call, "sort", nm); isS && len(call.Call.Args) > 0 && canon(rootOf(stripConv(canon(call.Call.Args[0])))) == ssa.Value(fresh) {
				if (nm == "Slice" || nm == "SliceStable") && !strictIndexLess(call) {
					continue // not `x[i] < x[j]`: the copy is not known to end up ascending
				}
				sorted = true
				sortCall = in
			}
		}
	})
	if !copied || !sorted {
		return false
	}
	// the parameter is only read by copy / len
	if refs := fn.Params[0].Referrers(); refs != nil {
		for _, r := range *refs {
			call, isCall := r.(*ssa.Call)
			if isCall && (isBuiltin(call, "copy") || isBuiltin(call, "len")) {
				continue
			}
			if _, isDbg := r.(*ssa.DebugRef); isDbg {
				continue
			}
			return false
		}
	}
	return dominates(sortCall, rets[0])
}

// checkSingleBucket: the _singleBucket literal holds the four extremes.
func (c *Ctx) checkSingleBucket(rule string) {
	pk := c.pkg("")
	want := map[string]constant.Value{
		"lowerBoundDuration": constant.MakeInt64(math.MinInt64), "upperBoundDuration": constant.MakeInt64(math.MaxInt64),
		"lowerBoundValue": constant.MakeFloat64(-math.MaxFloat64), "upperBoundValue": constant.MakeFloat64(math.MaxFloat64),
	}
	found := false
	for _, f := range pk.Syntax {
		ast.Inspect(f, func(n ast.Node) bool {
			vs, ok := n.(*ast.ValueSpec)
			if !ok {
				return true
			}
			for i, nm := range vs.Names {
				if nm.Name != "_singleBucket" || i >= len(vs.Values) {
					continue
				}
				found = true
				cl, isCL := vs.Values[i].(*ast.CompositeLit)
				if !isCL {
					c.undecided(rule, "_singleBucket", vs.Pos(), "initialiser is not a composite literal")
					continue
				}
				got := map[string]bool{}
				for _, e := range cl.Elts {
					kv, isKV := e.(*ast.KeyValueExpr)
					if !isKV {
						continue
					}
					id, _ := kv.Key.(*ast.Ident)
					tv := pk.TypesInfo.Types[kv.Value]
					if id == nil || tv.Value == nil {
						continue
					}
					w, known := want[id.Name]
					if known && constant.Compare(tv.Value, token.EQL, w) {
						got[id.Name] = true
					} else if known {
						c.bad(rule, "_singleBucket."+id.Name, kv.Pos(), fmt.Sprintf("open end %s is %s, it must be %s (minimum/maximum representable): the delivered bounds no longer cover the whole line and the integer bucket search can run past the last bucket", id.Name, tv.Value.String(), w.String()))
						got[id.Name] = true
					}
				}
				for k := range want {
					if !got[k] {
						c.bad(rule, "_singleBucket."+k, cl.Pos(), "open end "+k+" is not initialised to its extreme")
					}
				}
				c.ok(rule, "_singleBucket", cl.Pos(), "open ends initialised from constants (checked individually)")
			}
			return true
		})
	}
	if !found {
		c.missing(rule, "variable tally._singleBucket")
	}
}

// checkBucketStorage: stores into histogramBucket fields take the same-kind accessor of a pair.
func (c *Ctx) checkBucketStorage(rule string, fVal, fDur *types.Var) {
	mV, mD := c.ifaceMethod("", "BucketPair", "UpperBoundValue"), c.ifaceMethod("", "BucketPair", "UpperBoundDuration")
	n := 0
	for _, fn := range c.funcsOfPkg("") {
		instrsOf(fn, func(in ssa.Instruction) {
			st, ok := in.(*ssa.Store)
			if !ok {
				return
			}
			f, _ := addrField(st.Addr)
			if f != fVal && f != fDur {
				return
			}
			n++
			want := mV
			if f == fDur {
				want = mD
			}
			okSrc := false
			if call, isCall := stripConv(st.Val).(*ssa.Call); isCall {
				if _, m := ifaceCall(call); m != nil && m == want {
					okSrc = true
				}
			}
			c.check(okSrc, rule, c.fnKey(fn)+":"+f.Name(), st.Pos(), f.Name()+" <- pair."+want.Name()+"()",
				"histogramBucket."+f.Name()+" is not filled from the pair's "+want.Name()+"(): the stored upper bounds differ from the ones BucketPairs derived", c.describe(st))
			// both kinds of bound are filled for every bucket, whatever the type the table is built for:
			// the cached table is shared by histograms of either kind with equal specifications (the cache
			// key does not contain the type)
			if okSrc {
				if lp := innermostLoop(loopsOf(fn), st.Block()); lp != nil {
					every := true
					for _, la := range lp.Latch {
						if !st.Block().Dominates(la) {
							every = false
						}
					}
					c.check(every, rule, c.fnKey(fn)+":"+f.Name()+":every-bucket", st.Pos(), f.Name()+" is filled in every iteration",
						"histogramBucket."+f.Name()+" is filled only for some buckets / some table types: a table built for one kind and found in the cache by a histogram of the other kind has all-zero bounds there - every sample lands in the first bucket and the delivered bounds do not tile the line", c.describe(st))
				}
			}
		})
	}
	c.floor(rule, n, 2)
}

// checkPairAccessors: bucketPair's four accessors return their own field.
func (c *Ctx) checkPairAccessors(rule string) {
	for _, m := range []struct{ meth, fld string }{
		{"LowerBoundValue", "lowerBoundValue"}, {"UpperBoundValue", "upperBoundValue"},
		{"LowerBoundDuration", "lowerBoundDuration"}, {"UpperBoundDuration", "upperBoundDuration"}} {
		fn := c.fn("", "bucketPair", m.meth)
		fld := c.field("", "bucketPair", m.fld)
		if fn == nil || fld == nil {
			c.missing(rule, "tally.bucketPair."+m.meth)
			continue
		}
		ok := false
		if rets := returnsOf(fn); len(rets) == 1 {
			if f, base := loadedField(rets[0].Results[0]); f == fld && canon(rootOf(base)) == ssa.Value(fn.Params[0]) {
				ok = true
			}
		}
		c.check(ok, rule, "bucketPair."+m.meth, fn.Pos(), "returns p."+m.fld, "bucketPair."+m.meth+" does not return its own field "+m.fld)
	}
}

// checkBucketsUsed (O7): a histogram is built from the buckets it was asked for. In Scope.Histogram the
// specification handed to the cached reporter and to the bucket cache is the caller's argument, replaced
// by the scope's default buckets exactly when the argument is nil; the scope's default buckets are the
// configured ones, replaced by the package default exactly when they are nil or empty.
func (c *Ctx) checkBucketsUsed(rule string) {
	fDef := c.field("", "scope", "defaultBuckets")
	fOpt := c.field("", "ScopeOptions", "DefaultBuckets")
	getFn := c.fn("", "bucketCache", "Get")
	hist := c.fn("", "scope", "Histogram")
	if fDef == nil || fOpt == nil || getFn == nil || hist == nil {
		c.missing(rule, "tally.scope.defaultBuckets / ScopeOptions.DefaultBuckets / bucketCache.Get / scope.Histogram")
		return
	}
	// ---- Scope.Histogram --------------------------------------------------------------------------
	{
		fn := hist
		key := c.fnKey(fn)
		c.sawFunc(key)
		param := ssa.Value(fn.Params[2])
		var used []ssa.Value
		var at []ssa.Instruction
		instrsOf(fn, func(in ssa.Instruction) {
			ci, ok := in.(ssa.CallInstruction)
			if !ok {
				return
			}
			if staticCallee(ci) == getFn {
				used = append(used, ci.Common().Args[2])
				at = append(at, in)
			}
			if _, m := ifaceCall(ci); m != nil && m.Name() == "AllocateHistogram" {
				a := callArgs(ci)
				used = append(used, a[len(a)-1])
				at = append(at, in)
			}
		})
		ok := len(used) >= 2
		why := "the bucket specification is not handed to both the bucket cache and the cached reporter"
		for i, u := range used {
			v := canon(stripConv(u))
			if v == param {
				continue
			}
			phi, isPhi := v.(*ssa.Phi)
			if !isPhi || len(phi.Edges) != 2 {
				ok = false
				why = "the bucket specification used is not the caller's argument (or the scope default for a nil argument)"
				c.bad(rule, key, at[i].Pos(), why+": the histogram counts against other bounds than the ones requested", c.describe(at[i]))
				return
			}
			for k, e := range phi.Edges {
				pred := phi.Block().Preds[k]
				ev := canon(stripConv(e))
				nilEdge := func(wantNil bool) bool {
					// pred is reached only with param == nil (resp. != nil)
					test := func(cond ssa.Value) (bool, bool) {
						op, x, y, okc := cmpOf(cond)
						if !okc || (op != token.EQL && op != token.NEQ) {
							return false, false
						}
						if isNilConst(x) {
							x, y = y, x
						}
						if !isNilConst(y) || canon(stripConv(x)) != param {
							return false, false
						}
						return true, (op == token.EQL) == wantNil
					}
					if guardedByEdge(pred.Instrs[len(pred.Instrs)-1], test) != nil {
						return true
					}
					// the test block itself is the predecessor (empty else branch)
					if iff, isIf := condOf(pred); isIf {
						if m, onTrue := test(iff.Cond); m {
							idx := 1
							if onTrue {
								idx = 0
							}
							return pred.Succs[idx] == phi.Block()
						}
					}
					return false
				}
				switch {
				case ev == param:
					if !nilEdge(false) {
						ok, why = false, "the caller's buckets are used on a path that is not `argument != nil`"
					}
				default:
					if f, base := loadedField(ev); f == fDef && canon(base) == ssa.Value(fn.Params[0]) {
						if !nilEdge(true) {
							ok, why = false, "the scope's default buckets replace the caller's buckets under a condition other than `argument == nil` (a non-nil specification, e.g. a single bucket, is discarded)"
						}
					} else {
						ok, why = false, "the bucket specification is replaced by something other than the scope's default buckets"
					}
				}
			}
		}
		c.check(ok, rule, key, fn.Pos(), "cache and reporter get the caller's buckets; the scope default replaces them exactly when they are nil", why+": the histogram counts against other bounds than the ones requested")
	}
	// ---- the scope default ------------------------------------------------------------------------
	for _, fn := range c.funcsOfPkg("") {
		var stDef *ssa.Store
		instrsOf(fn, func(in ssa.Instruction) {
			if st, ok := in.(*ssa.Store); ok {
				if f, b := addrField(st.Addr); f == fDef {
					if al, isAl := canon(rootOf(b)).(*ssa.Alloc); isAl && al.Parent() == fn {
						stDef = st
					}
				}
			}
		})
		if stDef == nil || fn.Name() == "Subscope" {
			continue
		}
		if f, _ := loadedField(stDef.Val); f == fDef {
			continue // inherited from the parent scope
		}
		key := c.fnKey(fn) + ":defaultBuckets"
		c.sawFunc(c.fnKey(fn))
		if call, isCall := stripConv(stDef.Val).(*ssa.Call); isCall {
			// a defaulting helper: g(opts.DefaultBuckets) returns its argument exactly when that is
			// non-nil and non-empty, and a package-level default otherwise
			if why := c.defaultingHelper(call, fOpt); why == "" {
				c.ok(rule, key, stDef.Pos(), "scope default = the configured buckets, replaced by the package default exactly when nil or empty (through "+staticCallee(call).Name()+")")
			} else {
				c.bad(rule, key, stDef.Pos(), "the scope's default buckets are not the configured ones replaced by the package default exactly when nil or empty: "+why, c.describe(stDef))
			}
			continue
		}
		if f, _ := loadedField(stDef.Val); f != fOpt {
			c.bad(rule, key, stDef.Pos(), "the scope's default buckets are not taken from ScopeOptions.DefaultBuckets", c.describe(stDef))
			continue
		}
		// the in-place default: opts.DefaultBuckets = <package default>, reachable exactly through
		// `== nil` or `Len() < 1`
		var defaults []*ssa.Store
		instrsOf(fn, func(in ssa.Instruction) {
			if st, ok := in.(*ssa.Store); ok && st != stDef {
				if f, _ := addrField(st.Addr); f == fOpt {
					defaults = append(defaults, st)
				}
			}
		})
		if len(defaults) != 1 {
			c.bad(rule, key, stDef.Pos(), fmt.Sprintf("nil or empty default buckets are replaced by the package default at %d sites (expected one): histograms created with nil buckets get no (or the wrong) default specification", len(defaults)))
			continue
		}
		d := defaults[0]
		if ld, isLd := stripConv(d.Val).(*ssa.UnOp); !isLd {
			c.bad(rule, key, d.Pos(), "the replacement for unset default buckets is not a package-level default specification", c.describe(d))
			continue
		} else if _, isG := ld.X.(*ssa.Global); !isG {
			c.bad(rule, key, d.Pos(), "the replacement for unset default buckets is not a package-level default specification", c.describe(d))
			continue
		}
		allowed := map[*ssa.BasicBlock]int{}
		for _, b := range fn.Blocks {
			iff, isIf := condOf(b)
			if !isIf {
				continue
			}
			op, x, y, okc := cmpOf(iff.Cond)
			if !okc {
				continue
			}
			// opts.DefaultBuckets == nil
			if op == token.EQL || op == token.NEQ {
				xx, yy := x, y
				if isNilConst(xx) {
					xx, yy = yy, xx
				}
				if f, _ := loadedField(stripConv(xx)); f == fOpt && isNilConst(yy) {
					allowed[b] = b2i(op != token.EQL)
					continue
				}
			}
			// opts.DefaultBuckets.Len() < 1 (<= 0, == 0; flipped forms)
			lenCall := func(v ssa.Value) bool {
				ci, isCall := stripConv(v).(*ssa.Call)
				if !isCall {
					return false
				}
				r, m := ifaceCall(ci)
				if m == nil || m.Name() != "Len" {
					return false
				}
				f, _ := loadedField(stripConv(r))
				return f == fOpt
			}
			if lenCall(y) {
				x, y = y, x
				op = flipCmp(op)
			}
			if !lenCall(x) {
				continue
			}
			k, isK := constInt(y)
			if !isK {
				continue
			}
			switch {
			case (op == token.LSS && k == 1) || (op == token.LEQ && k == 0) || (op == token.EQL && k == 0):
				allowed[b] = 0
			case (op == token.GEQ && k == 1) || (op == token.GTR && k == 0) || (op == token.NEQ && k == 0):
				allowed[b] = 1
			}
		}
		e := entryInstr(fn)
		reach := e != nil && reachThreaded(e, d, nil, nil)
		other := e != nil && reachThreaded(e, d, allowed, nil)
		c.check(reach && !other && len(allowed) >= 2, rule, key, d.Pos(), "configured default buckets are kept; the package default replaces them exactly when they are nil or empty",
			"the package default replaces the configured default buckets under a condition other than `nil or Len() < 1`: a configured specification (e.g. a single bucket) is silently discarded, or an unset one is not replaced", c.describe(d))
	}
}

// checkCachedBucketPerBucket (O8): with a cached reporter every bucket of a histogram gets its cached
// bucket handle: in the constructor's per-bucket loop the only ways around the store to
// samples[i].cachedBucket are "no cached histogram" and "neither histogram kind". The cached report pass
// calls the handle of every bucket with a non-zero count unconditionally, so a bucket left without a
// handle (because of its bounds, its index, ...) crashes the pass as soon as a sample lands in it.
func (c *Ctx) checkCachedBucketPerBucket(rule string) {
	fn := c.fn("", "", "newHistogram")
	fCB := c.field("", "sampleCounter", "cachedBucket")
	if fn == nil || fCB == nil {
		c.missing(rule, "tally.newHistogram / sampleCounter.cachedBucket")
		return
	}
	key := c.fnKey(fn)
	c.sawFunc(key)
	var cachedParam, htypeParam ssa.Value
	for _, p := range fn.Params {
		if n, ok := p.Type().(*types.Named); ok {
			switch n.Obj().Name() {
			case "CachedHistogram":
				cachedParam = p
			case "histogramType":
				htypeParam = p
			}
		}
	}
	var stores []*ssa.Store
	instrsOf(fn, func(in ssa.Instruction) {
		if st, ok := in.(*ssa.Store); ok {
			if f, _ := addrField(st.Addr); f == fCB {
				stores = append(stores, st)
			}
		}
	})
	if cachedParam == nil || len(stores) == 0 {
		c.bad(rule, key, fn.Pos(), "the histogram constructor does not store a cached bucket handle per bucket")
		return
	}
	var lp *loopInfo
	for _, l := range loopsOf(fn) {
		if l.Blocks[stores[0].Block()] {
			lp = l
		}
	}
	if lp == nil {
		c.bad(rule, key, stores[0].Pos(), "cached bucket handles are not allocated in a per-bucket loop")
		return
	}
	isHtypeTest := func(b *ssa.BasicBlock) bool {
		iff, ok := condOf(b)
		if !ok {
			return false
		}
		op, x, y, isCmp := cmpOf(iff.Cond)
		if !isCmp || (op != token.EQL && op != token.NEQ) {
			return false
		}
		if _, isK := constInt(x); isK {
			x, y = y, x
		}
		_, isK := constInt(y)
		return isK && htypeParam != nil && canon(stripConv(x)) == htypeParam
	}
	skip := map[*ssa.BasicBlock]int{}
	for b := range lp.Blocks {
		iff, ok := condOf(b)
		if !ok {
			continue
		}
		if op, x, y, isCmp := cmpOf(iff.Cond); isCmp && (op == token.EQL || op == token.NEQ) {
			if isNilConst(x) {
				x, y = y, x
			}
			if isNilConst(y) && canon(stripConv(x)) == cachedParam {
				skip[b] = b2i(op == token.NEQ) // the "== nil" outcome
				continue
			}
		}
		if isHtypeTest(b) {
			op, _, _, _ := cmpOf(iff.Cond)
			miss := b2i(op == token.EQL) // the "is not this kind" outcome
			if !isHtypeTest(b.Succs[miss]) {
				skip[b] = miss
			}
		}
	}
	isStore := func(in ssa.Instruction) bool {
		st, ok := in.(*ssa.Store)
		if !ok {
			return false
		}
		f, _ := addrField(st.Addr)
		return f == fCB
	}
	latch := map[*ssa.BasicBlock]bool{}
	for _, l := range lp.Latch {
		latch[l] = true
	}
	// from the first instruction of the loop body to the end of an iteration without a store
	var esc ssa.Instruction
	for _, s := range lp.Header.Succs {
		if !lp.Blocks[s] || len(s.Instrs) == 0 {
			continue
		}
		_ = latch
		e := reachAvoidingF(s.Instrs[0], true, skip, func(i ssa.Instruction) bool {
			return i == lp.Header.Instrs[0] // back at the header: the iteration is over
		}, isStore)
		if e != nil {
			esc = e
		}
	}
	c.check(esc == nil, rule, key, stores[0].Pos(), "with a cached histogram every bucket of either kind gets its cached bucket handle",
		"an iteration of the per-bucket loop can finish without storing a cached bucket handle although a cached histogram is present (a condition on the bucket's bounds or index): the cached report pass calls that nil handle as soon as the bucket has a sample (nil pointer panic), e.g. for -Inf / the minimum bound")
}

// checkPairsDefault (O5): BucketPairs answers with the single open bucket exactly for a nil or empty
// specification. A weaker test (nil only) indexes element 0 of an empty list (panic); a stronger one
// (Len() <= 1) throws away a one-bound specification and counts everything in one bucket.
func (c *Ctx) checkPairsDefault(rule string) {
	fn := c.fn("", "", "BucketPairs")
	if fn == nil || len(fn.Params) != 1 {
		c.missing(rule, "tally.BucketPairs")
		return
	}
	key := c.fnKey(fn)
	c.sawFunc(key)
	param := ssa.Value(fn.Params[0])
	// the early return: a return whose value is a one-element slice literal holding _singleBucket
	var early *ssa.Return
	for _, r := range returnsOf(fn) {
		for _, va := range resultValues(r, 0) {
			sl, ok := stripConv(va.Val).(*ssa.Slice)
			if !ok {
				continue
			}
			if al, isAl := sl.X.(*ssa.Alloc); isAl {
				if arr, isArr := deref(al.Type()).Underlying().(*types.Array); isArr && arr.Len() == 1 {
					early = r
				}
			}
		}
	}
	if early == nil {
		c.bad(rule, key, fn.Pos(), "BucketPairs has no answer for a nil / empty specification (the single open bucket)")
		return
	}
	allowed := map[*ssa.BasicBlock]int{}
	for _, b := range fn.Blocks {
		iff, isIf := condOf(b)
		if !isIf {
			continue
		}
		op, x, y, okc := cmpOf(iff.Cond)
		if !okc {
			continue
		}
		if op == token.EQL || op == token.NEQ {
			xx, yy := x, y
			if isNilConst(xx) {
				xx, yy = yy, xx
			}
			if canon(stripConv(xx)) == param && isNilConst(yy) {
				allowed[b] = b2i(op != token.EQL)
				continue
			}
		}
		lenCall := func(v ssa.Value) bool {
			ci, isCall := stripConv(v).(*ssa.Call)
			if !isCall {
				return false
			}
			r, m := ifaceCall(ci)
			return m != nil && m.Name() == "Len" && canon(stripConv(r)) == param
		}
		if lenCall(y) {
			x, y = y, x
			op = flipCmp(op)
		}
		if !lenCall(x) {
			continue
		}
		k, isK := constInt(y)
		if !isK {
			continue
		}
		switch {
		case (op == token.LSS && k == 1) || (op == token.LEQ && k == 0) || (op == token.EQL && k == 0):
			allowed[b] = 0
		case (op == token.GEQ && k == 1) || (op == token.GTR && k == 0) || (op == token.NEQ && k == 0):
			allowed[b] = 1
		}
	}
	e := entryInstr(fn)
	reach := e != nil && reachThreaded(e, early, nil, nil)
	other := e != nil && reachThreaded(e, early, allowed, nil)
	// ... and every other path has passed both tests: the first element is read only when there is one
	c.check(reach && !other && len(allowed) >= 2, rule, key, early.Pos(), "the single open bucket is the answer exactly for a nil or empty specification",
		"BucketPairs returns the single open bucket under a condition other than `buckets == nil || buckets.Len() < 1`: an empty specification falls through to `sorted[0]` (index out of range), or a one-bound specification is discarded and every sample is counted in one bucket", c.describe(early))
}

// defaultingHelper: call is g(<load of fOpt>) for a same-package g that returns its parameter exactly
// on `param != nil && param.Len() >= 1` and a package-level variable otherwise. Returns "" or the reason.
func (c *Ctx) defaultingHelper(call *ssa.Call, fOpt *types.Var) string {
	g := staticCallee(call)
	if g == nil || g.Blocks == nil || !c.inModule(g) {
		return "the helper is not a function of the module"
	}
	pi := -1
	for i, a := range call.Call.Args {
		if f, _ := loadedField(stripConv(a)); f == fOpt {
			pi = i
		}
	}
	if pi < 0 || pi >= len(g.Params) {
		return "the helper is not handed ScopeOptions.DefaultBuckets"
	}
	par := ssa.Value(g.Params[pi])
	// the only tests: param ==/!= nil, param.Len() compared with 0 / 1
	type test struct {
		b       *ssa.BasicBlock
		goodIdx int // successor on which the parameter is usable (non-nil resp. non-empty)
		kind    string
	}
	var tests []test
	for _, b := range g.Blocks {
		iff, isIf := condOf(b)
		if !isIf {
			continue
		}
		op, x, y, okc := cmpOf(iff.Cond)
		if !okc {
			return "the helper decides on something other than its argument being nil or empty"
		}
		if isNilConst(x) {
			x, y = y, x
			op = flipCmp(op)
		}
		if isNilConst(y) && canon(stripConv(x)) == par && (op == token.EQL || op == token.NEQ) {
			tests = append(tests, test{b, b2i(op == token.EQL), "nil"})
			continue
		}
		lenOf := func(v ssa.Value) bool {
			ci, isCall := stripConv(v).(*ssa.Call)
			if !isCall {
				return false
			}
			r, m := ifaceCall(ci)
			return m != nil && m.Name() == "Len" && canon(stripConv(r)) == par
		}
		if lenOf(y) {
			x, y = y, x
			op = flipCmp(op)
		}
		k, isK := constInt(y)
		if !lenOf(x) || !isK {
			return "the helper decides on something other than its argument being nil or empty"
		}
		good := -1 // successor taken when Len() >= 1
		switch {
		case op == token.GEQ && k == 1, op == token.GTR && k == 0, op == token.NEQ && k == 0:
			good = 0
		case op == token.LSS && k == 1, op == token.LEQ && k == 0, op == token.EQL && k == 0:
			good = 1
		}
		if good < 0 {
			return fmt.Sprintf("the helper compares the number of buckets with %d using %s (expected: empty means Len() < 1)", k, op)
		}
		tests = append(tests, test{b, good, "len"})
	}
	nPar, nDef := 0, 0
	for _, r := range returnsOf(g) {
		if len(r.Results) != 1 {
			return "unexpected result arity"
		}
		for _, va := range resultValues(r, 0) {
			v := canon(stripConv(va.Val))
			if v == par {
				nPar++
				okNil, okLen := false, false
				for _, t := range tests {
					if edgeDominates(t.b, t.goodIdx, va.At.Block()) {
						if t.kind == "nil" {
							okNil = true
						} else {
							okLen = true
						}
					}
				}
				if !okNil || !okLen {
					return "the configured buckets are used on a path where they were not found to be non-nil and non-empty"
				}
				continue
			}
			if ld, isLd := v.(*ssa.UnOp); isLd && ld.Op == token.MUL {
				if _, isG := ld.X.(*ssa.Global); isG {
					nDef++
					continue
				}
			}
			return "the helper returns something other than its argument or a package-level default"
		}
	}
	if nPar == 0 || nDef == 0 {
		return "the helper does not choose between its argument and a package-level default"
	}
	return ""
}

// checkNoGlobalState: the functions in roots - and the module functions they call, transitively -
// compute their result from their arguments alone: the only package-level variables they touch
// are constant-like (only ever loaded outside package initialisation). A result that depends on a
// table keyed by anything coarser than the argument's contents (a memo by slice identity, a
// "last specification" variable) is the result for some other argument.
func (c *Ctx) checkNoGlobalState(rule string, roots ...*ssa.Function) {
	// classify every module global once
	mutable := map[*ssa.Global]string{}
	for _, fn := range c.AllFuncs {
		isInit := fn.Name() == "init" && fn.Signature.Recv() == nil && fn.Parent() == nil
		instrsOf(fn, func(in ssa.Instruction) {
			for _, op := range in.Operands(nil) {
				if op == nil || *op == nil {
					continue
				}
				g, isG := (*op).(*ssa.Global)
				if !isG || mutable[g] != "" {
					continue
				}
				switch x := in.(type) {
				case *ssa.UnOp:
					continue // load
				case *ssa.Store:
					if x.Addr == ssa.Value(g) && isInit {
						continue
					}
					mutable[g] = "it is assigned at " + c.pos(in.Pos()) + " (" + fn.String() + ")"
				case *ssa.FieldAddr, *ssa.IndexAddr:
					// reads of parts are fine; writes through the part are not
					v := in.(ssa.Value)
					if v.Referrers() != nil {
						for _, u := range *v.Referrers() {
							if _, isLoad := u.(*ssa.UnOp); isLoad {
								continue
							}
							if _, isDbg := u.(*ssa.DebugRef); isDbg {
								continue
							}
							if st, isSt := u.(*ssa.Store); isSt && isInit && st.Addr == v {
								continue
							}
							mutable[g] = "a part of it is written or handed on at " + c.pos(u.Pos()) + " (" + fn.String() + ")"
						}
					}
				case *ssa.DebugRef:
					continue
				default:
					if isInit {
						continue
					}
					mutable[g] = "its address is used at " + c.pos(in.Pos()) + " (" + fn.String() + ")"
				}
			}
		})
	}
	n := 0
	for _, root := range roots {
		if root == nil {
			continue
		}
		key := c.fnKey(root)
		c.sawFunc(key)
		seen := map[*ssa.Function]bool{}
		okAll := true
		var visit func(fn *ssa.Function, depth int)
		visit = func(fn *ssa.Function, depth int) {
			if fn == nil || fn.Blocks == nil || seen[fn] || depth > 5 || !c.inModule(fn) {
				return
			}
			seen[fn] = true
			n++
			for _, lit := range fn.AnonFuncs {
				visit(lit, depth+1)
			}
			instrsOf(fn, func(in ssa.Instruction) {
				for _, op := range in.Operands(nil) {
					if op == nil || *op == nil {
						continue
					}
					if g, isG := (*op).(*ssa.Global); isG && mutable[g] != "" && g.Pkg != nil && c.ByPath[g.Pkg.Pkg.Path()] != nil {
						if _, isDbg := in.(*ssa.DebugRef); isDbg {
							continue
						}
						okAll = false
						c.bad(rule, key+":"+g.Name(), in.Pos(), fmt.Sprintf("%s computes its result with the package-level variable %s, which is not constant (%s): the result for one argument depends on what earlier calls with other arguments left there - two specifications that differ only in content (same backing array, refilled) get each other's bounds", root.Name(), g.Name(), mutable[g]), c.describe(in))
					}
				}
				if ci, isCall := in.(ssa.CallInstruction); isCall {
					if g := staticCallee(ci); g != nil {
						visit(g, depth+1)
					}
				}
			})
		}
		visit(root, 0)
		if okAll {
			c.ok(rule, key, root.Pos(), fmt.Sprintf("%s and the %d module functions it reaches touch no package-level variable that is ever written after initialisation", root.Name(), len(seen)-1))
		}
	}
	c.floor(rule, n, len(roots))
}

// strictIndexLess: the less function handed to sort.Slice(x, less) is a literal whose only return is
// `x[i] < x[j]` (or `x[j] > x[i]`) for its two parameters i, j.
func strictIndexLess(call *ssa.Call) bool {
	if len(call.Call.Args) < 2 {
		return false
	}
	var lit *ssa.Function
	switch v := stripConv(call.Call.Args[1]).(type) {
	case *ssa.MakeClosure:
		lit, _ = v.Fn.(*ssa.Function)
	case *ssa.Function:
		lit = v
	}
	if lit == nil || lit.Blocks == nil || len(lit.Params) != 2 {
		return false
	}
	rets := returnsOf(lit)
	if len(rets) != 1 || len(rets[0].Results) != 1 {
		return false
	}
	op, x, y, isCmp := cmpOf(rets[0].Results[0])
	if !isCmp {
		return false
	}
	idx := func(v ssa.Value) int {
		ld, ok := stripConv(v).(*ssa.UnOp)
		if !ok || ld.Op != token.MUL {
			return -1
		}
		ia, ok := ld.X.(*ssa.IndexAddr)
		if !ok {
			return -1
		}
		for i, p := range lit.Params {
			if canon(ia.Index) == ssa.Value(p) {
				return i
			}
		}
		return -1
	}
	xi, yi := idx(x), idx(y)
	return (op == token.LSS && xi == 0 && yi == 1) || (op == token.GTR && xi == 1 && yi == 0)
}
